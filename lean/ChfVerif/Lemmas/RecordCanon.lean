import ChfVerif.Lemmas.RecordBer
import ChfVerif.Lemmas.BerStructRT
import ChfVerif.Lemmas.X690WellFormed
import ChfVerif.Spec.BerSpec
/-
  The value OpenCDR / UpdateCDR build is within the domain of the encoder theorems (C04: every integer an int64,
  no BIT STRING) and of the round-trip theorem (C05: canonical for the regenerated type CHFRecord) — for every
  record whose integers are what Go can hold (`RecInt64`).
-/
namespace Chf.RecordBer
open Chf Chf.Ber Chf.Charging Chf.X690

def ContInt64 (c : Container) : Prop := int64 c.total ∧ int64 c.up ∧ int64 c.down ∧ int64 c.ssu ∧ int64 c.lsn

def UsageInt64 (u : RecUsage) : Prop := int64 u.rg ∧ ∀ c ∈ u.cs, ContInt64 c

/-- every integer of the record fits the Go type that holds it (int64 / *int64 members of cdrType.ChargingRecord) -/
def RecInt64 (e : RecEnv) (r : Record) : Prop :=
  int64 e.functionality ∧ int64 r.cid ∧ int64 (r.lsn : Int) ∧ int64 (r.cause : Int) ∧
  (∀ n, r.rsn = some n → int64 (n : Int)) ∧ ∀ u ∈ r.usage, UsageInt64 u

theorem canon_int64 {i : Int} (h : int64 i) : Canon (.int 64) (.int i) := .int h (by simp [truncInt])

theorem canon_container (c : Container) (h : ContInt64 c) : Canon Gen.T_UsedUnitContainer (containerVal c) := by
  obtain ⟨h1, h2, h3, h4, h5⟩ := h
  unfold Gen.T_UsedUnitContainer containerVal
  simp only [Vals.ofList, nils, List.cons_append, List.nil_append]
  refine .struct (.absent rfl (.absent rfl (.absent rfl (.absent rfl
    (.present (.ptr (.wrap (canon_int64 h1))) (.present (.ptr (.wrap (canon_int64 h2))) (.present (.ptr (.wrap (canon_int64 h3)))
    (.present (.ptr (canon_int64 h4)) (.absent rfl (.present (.ptr (.wrap (canon_int64 h5)))
    (.absent rfl (.absent rfl (.absent rfl (.absent rfl (.absent rfl (.absent rfl .nil))))))))))))))))

theorem canon_containers (cs : List Container) (h : ∀ c ∈ cs, ContInt64 c) :
    CanonList Gen.T_UsedUnitContainer (containerVals cs) := by
  induction cs with
  | nil => exact .nil
  | cons c r ih =>
    exact .cons (canon_container c (h c (by simp))) (ih (fun x hx => h x (by simp [hx])))

theorem canon_usage (u : RecUsage) (h : UsageInt64 u) : Canon Gen.T_MultipleUnitUsage (usageVal u) := by
  unfold Gen.T_MultipleUnitUsage usageVal
  simp only [Vals.ofList]
  exact .struct (.present (.wrap (canon_int64 h.1)) (.present (.slice (canon_containers u.cs h.2))
    (.present (.ptr (.wrap .str)) (.absent rfl .nil))))

theorem canon_usages (us : List RecUsage) (h : ∀ u ∈ us, UsageInt64 u) :
    CanonList Gen.T_MultipleUnitUsage (usageVals us) := by
  induction us with
  | nil => exact .nil
  | cons u r ih => exact .cons (canon_usage u (h u (by simp))) (ih (fun x hx => h x (by simp [hx])))

theorem canon_nat {n : Nat} (h : int64 (n : Int)) : Canon (.int 64) (.int n) := canon_int64 h

theorem canon_record (e : RecEnv) (r : Record) (h : RecInt64 e r) : Canon Gen.T_CHFRecord (recordVal e r) := by
  obtain ⟨hf, hcid, hlsn, hcause, hrsn, hus⟩ := h
  have hU := canon_usages r.usage hus
  have h200 : int64 200 := ⟨by decide, by decide⟩
  have h1 : int64 1 := ⟨by decide, by decide⟩
  have h0 : int64 0 := ⟨by decide, by decide⟩
  unfold recordVal Gen.T_CHFRecord
  refine .choice (v := chargingRecordVal e r) (by decide) (.here (.ptr ?_)) rfl rfl
  unfold chargingRecordVal Gen.T_ChargingRecord
  simp only [Vals.ofList, nils, List.cons_append, List.nil_append]
  -- members 0..3
  refine .struct (.present (.wrap (canon_int64 h200)) (.present (.wrap .str)
    (.present (.ptr (.struct (.present (.wrap (.enum h1)) (.present .str .nil)))) (.present ?nfi (.absent rfl ?rest)))))
  case nfi =>
    unfold Gen.T_NetworkFunctionInformation
    cases hn : r.nf with
    | none => exact .struct (.present (.wrap (.enum hf)) (.absent rfl (.absent rfl (.absent rfl (.absent rfl (.absent rfl .nil))))))
    | some b => exact .struct (.present (.wrap (.enum hf)) (.present (.ptr (.wrap .str)) (.absent rfl (.absent rfl (.absent rfl (.absent rfl .nil))))))
  case rest =>
    -- member 5 (usage list), then 6.. (opening time, duration, record sequence number, cause, …)
    have tail : ∀ (v8 : Val), (v8 = .nil ∨ ∃ n : Nat, v8 = .int n ∧ int64 (n : Int)) → ∀ (v16 : Val), (v16 = .nil ∨ ∃ b, v16 = .bytes b) →
        CanonFields
          (.cons ⟨false, some 6, false, false, false, 0⟩ Gen.T_TimeStamp
          (.cons ⟨false, some 7, false, false, false, 0⟩ Gen.T_CallDuration
          (.cons ⟨true, some 8, false, false, false, 0⟩ (.ptr (.int 64))
          (.cons ⟨false, some 9, false, false, false, 0⟩ Gen.T_CauseForRecClosing
          (.cons ⟨true, some 10, false, false, false, 0⟩ (.ptr Gen.T_Diagnostics)
          (.cons ⟨true, some 11, false, false, false, 0⟩ (.ptr Gen.T_LocalSequenceNumber)
          (.cons ⟨true, some 12, false, false, false, 0⟩ (.ptr Gen.T_ManagementExtensions)
          (.cons ⟨true, some 13, false, false, false, 0⟩ (.ptr Gen.T_PDUSessionChargingInformation)
          (.cons ⟨true, some 14, false, false, false, 0⟩ (.ptr Gen.T_RoamingQBCInformation)
          (.cons ⟨true, some 15, false, false, false, 0⟩ (.ptr Gen.T_SMSChargingInformation)
          (.cons ⟨true, some 16, false, false, false, 0⟩ (.ptr Gen.T_ChargingSessionIdentifier)
          (.cons ⟨true, some 17, false, false, false, 0⟩ (.ptr .octets)
          (.cons ⟨true, some 18, false, false, false, 0⟩ (.ptr Gen.T_ExposureFunctionAPIInformation)
          (.cons ⟨true, some 19, false, false, false, 0⟩ (.ptr Gen.T_RegistrationChargingInformation)
          (.cons ⟨true, some 20, false, false, false, 0⟩ (.ptr Gen.T_N2ConnectionChargingInformation)
          (.cons ⟨true, some 21, false, false, false, 0⟩ (.ptr Gen.T_LocationReportingChargingInformation)
          (.cons ⟨true, some 22, false, false, false, 0⟩ (.ptr Gen.T_IncompleteCDRIndication)
          (.cons ⟨true, some 23, false, false, false, 0⟩ (.ptr Gen.T_TenantIdentifier)
          (.cons ⟨true, some 24, false, false, false, 0⟩ (.ptr Gen.T_MnSConsumerIdentifier)
          (.cons ⟨true, some 25, false, false, false, 0⟩ (.ptr Gen.T_NSMChargingInformation)
          (.cons ⟨true, some 26, false, false, false, 0⟩ (.ptr Gen.T_NSPAChargingInformation)
          (.cons ⟨true, some 27, false, false, false, 0⟩ (.ptr Gen.T_ChargingID) .nil))))))))))))))))))))))
          (.cons (.bytes e.openTime) (.cons (.int 0) (.cons v8 (.cons (.int r.cause) (.cons .nil (.cons (.int r.lsn)
            (.cons .nil (.cons .nil (.cons .nil (.cons .nil (.cons v16 (.cons .nil (.cons .nil (.cons .nil (.cons .nil
            (.cons .nil (.cons .nil (.cons .nil (.cons .nil (.cons .nil (.cons .nil (.cons (.int r.cid) .nil)))))))))))))))))))))) := by
      intro v8 h8 v16 h16
      have after16 : CanonFields
          (.cons ⟨true, some 17, false, false, false, 0⟩ (.ptr .octets)
          (.cons ⟨true, some 18, false, false, false, 0⟩ (.ptr Gen.T_ExposureFunctionAPIInformation)
          (.cons ⟨true, some 19, false, false, false, 0⟩ (.ptr Gen.T_RegistrationChargingInformation)
          (.cons ⟨true, some 20, false, false, false, 0⟩ (.ptr Gen.T_N2ConnectionChargingInformation)
          (.cons ⟨true, some 21, false, false, false, 0⟩ (.ptr Gen.T_LocationReportingChargingInformation)
          (.cons ⟨true, some 22, false, false, false, 0⟩ (.ptr Gen.T_IncompleteCDRIndication)
          (.cons ⟨true, some 23, false, false, false, 0⟩ (.ptr Gen.T_TenantIdentifier)
          (.cons ⟨true, some 24, false, false, false, 0⟩ (.ptr Gen.T_MnSConsumerIdentifier)
          (.cons ⟨true, some 25, false, false, false, 0⟩ (.ptr Gen.T_NSMChargingInformation)
          (.cons ⟨true, some 26, false, false, false, 0⟩ (.ptr Gen.T_NSPAChargingInformation)
          (.cons ⟨true, some 27, false, false, false, 0⟩ (.ptr Gen.T_ChargingID) .nil)))))))))))
          (.cons .nil (.cons .nil (.cons .nil (.cons .nil
            (.cons .nil (.cons .nil (.cons .nil (.cons .nil (.cons .nil (.cons .nil (.cons (.int r.cid) .nil))))))))))) :=
        .absent rfl (.absent rfl (.absent rfl (.absent rfl (.absent rfl (.absent rfl (.absent rfl (.absent rfl (.absent rfl
          (.absent rfl (.present (.ptr (.wrap (canon_int64 hcid))) .nil))))))))))
      rcases h16 with rfl | ⟨b, rfl⟩ <;> rcases h8 with rfl | ⟨n, rfl, hn⟩
      · exact .present (.wrap .octets) (.present (.wrap (canon_int64 h0)) (.absent rfl (.present (.wrap (canon_nat hcause)) (.absent rfl (.present (.ptr (.wrap (canon_nat hlsn))) (.absent rfl (.absent rfl (.absent rfl (.absent rfl (.absent rfl after16))))))))))
      · exact .present (.wrap .octets) (.present (.wrap (canon_int64 h0)) (.present (.ptr (canon_nat hn)) (.present (.wrap (canon_nat hcause)) (.absent rfl (.present (.ptr (.wrap (canon_nat hlsn))) (.absent rfl (.absent rfl (.absent rfl (.absent rfl (.absent rfl after16))))))))))
      · exact .present (.wrap .octets) (.present (.wrap (canon_int64 h0)) (.absent rfl (.present (.wrap (canon_nat hcause)) (.absent rfl (.present (.ptr (.wrap (canon_nat hlsn))) (.absent rfl (.absent rfl (.absent rfl (.absent rfl (.present (.ptr (.wrap .octets)) after16))))))))))
      · exact .present (.wrap .octets) (.present (.wrap (canon_int64 h0)) (.present (.ptr (canon_nat hn)) (.present (.wrap (canon_nat hcause)) (.absent rfl (.present (.ptr (.wrap (canon_nat hlsn))) (.absent rfl (.absent rfl (.absent rfl (.absent rfl (.present (.ptr (.wrap .octets)) after16))))))))))
    have h8 : (match r.rsn with | some n => Val.int n | none => Val.nil) = .nil ∨
        ∃ n : Nat, (match r.rsn with | some n => Val.int n | none => Val.nil) = .int n ∧ int64 (n : Int) := by
      cases hr : r.rsn with
      | none => exact Or.inl rfl
      | some n => exact Or.inr ⟨n, rfl, hrsn n hr⟩
    have h16 : optBytes r.sid = .nil ∨ ∃ b, optBytes r.sid = .bytes b := by
      cases r.sid with
      | none => exact Or.inl rfl
      | some b => exact Or.inr ⟨b, rfl⟩
    have T := tail _ h8 _ h16
    cases hu : r.usage with
    | nil => exact .absent rfl T
    | cons u us =>
      rw [hu] at hU
      exact .present (.slice hU) T

/-! ### the domain of the encoder theorems (C04) -/

theorem valOK_containers (cs : List Container) (h : ∀ c ∈ cs, ContInt64 c) : valsOK (containerVals cs) = true := by
  induction cs with
  | nil => simp [containerVals, valsOK]
  | cons c r ih =>
    obtain ⟨h1, h2, h3, h4, h5⟩ := h c (by simp)
    unfold int64 at h1 h2 h3 h4 h5
    simp [containerVals, containerVal, valsOK, valOK, Vals.ofList, nils, ih (fun x hx => h x (by simp [hx])), h1, h2, h3, h4, h5]

theorem valOK_usages (us : List RecUsage) (h : ∀ u ∈ us, UsageInt64 u) : valsOK (usageVals us) = true := by
  induction us with
  | nil => simp [usageVals, valsOK]
  | cons u r ih =>
    obtain ⟨h1, h2⟩ := h u (by simp)
    unfold int64 at h1
    simp [usageVals, usageVal, valsOK, valOK, Vals.ofList, ih (fun x hx => h x (by simp [hx])), h1, valOK_containers u.cs h2]

theorem valOK_record (e : RecEnv) (r : Record) (h : RecInt64 e r) : valOK (recordVal e r) = true := by
  obtain ⟨hf, hcid, hlsn, hcause, hrsn, hus⟩ := h
  have hU := valOK_usages r.usage hus
  unfold int64 at hf hcid hlsn hcause
  have h5 : valOK (usageListVal r.usage) = true := by
    cases hu : r.usage with
    | nil => simp [usageListVal, valOK]
    | cons u us => rw [hu] at hU; simp [usageListVal, valOK, hU]
  have h16 : valOK (optBytes r.sid) = true := by cases r.sid <;> simp [optBytes, valOK]
  have h3 : valOK (optStr r.nf) = true := by cases r.nf <;> simp [optStr, valOK]
  cases hr : r.rsn with
  | none => simp [recordVal, chargingRecordVal, valOK, valsOK, Vals.ofList, nils, hf, hcid, hlsn, hcause, h5, h16, h3, hr]
  | some n =>
    have h8 := hrsn n hr
    unfold int64 at h8
    simp [recordVal, chargingRecordVal, valOK, valsOK, Vals.ofList, nils, hf, hcid, hlsn, hcause, h5, h16, h3, hr, h8]

theorem bitsOK_containers (cs : List Container) : bitsOKs (containerVals cs) = true := by
  induction cs with
  | nil => simp [containerVals, bitsOKs]
  | cons c r ih => simp [containerVals, containerVal, bitsOKs, bitsOK, Vals.ofList, nils, ih]

theorem bitsOK_usages (us : List RecUsage) : bitsOKs (usageVals us) = true := by
  induction us with
  | nil => simp [usageVals, bitsOKs]
  | cons u r ih => simp [usageVals, usageVal, bitsOKs, bitsOK, Vals.ofList, ih, bitsOK_containers]

theorem bitsOK_record (e : RecEnv) (r : Record) : bitsOK (recordVal e r) = true := by
  have h5 : bitsOK (usageListVal r.usage) = true := by
    cases hu : r.usage with
    | nil => simp [usageListVal, bitsOK]
    | cons u us => simp [usageListVal, bitsOK, bitsOK_usages]
  have h16 : bitsOK (optBytes r.sid) = true := by cases r.sid <;> simp [optBytes, bitsOK]
  have h3 : bitsOK (optStr r.nf) = true := by cases r.nf <;> simp [optStr, bitsOK]
  cases hr : r.rsn <;> simp [recordVal, chargingRecordVal, bitsOK, bitsOKs, Vals.ofList, nils, h5, h16, h3, hr]

end Chf.RecordBer

namespace Chf.RecordBer
open Chf Chf.Ber Chf.Charging

/-! ### every octet written is an octet (the file model works on `Nat` lists) -/

theorem ok_append {a b : Bytes} (ha : Bytes.ok a) (hb : Bytes.ok b) : Bytes.ok (a ++ b) := by
  intro x hx
  rcases List.mem_append.mp hx with h | h
  · exact ha x h
  · exact hb x h

theorem ok_nil : Bytes.ok [] := by intro x hx; cases hx

theorem lenDigits_ok (n f : Nat) : Bytes.ok (lenDigits n f) ∧ (lenDigits n f).length ≤ f + 1 := by
  induction f generalizing n with
  | zero =>
    unfold lenDigits
    exact ⟨by intro x hx; simp at hx; omega, by simp⟩
  | succ f ih =>
    unfold lenDigits
    split
    · obtain ⟨h1, h2⟩ := ih (n / 256)
      refine ⟨ok_append h1 (by intro x hx; simp at hx; omega), ?_⟩
      simp only [List.length_append, List.length_cons, List.length_nil]; omega
    · exact ⟨by intro x hx; simp at hx; omega, by simp⟩

theorem intOctets_ok (i : Int) (n : Nat) : Bytes.ok (intOctets i n) := by
  induction n generalizing i with
  | zero => exact ok_nil
  | succ n ih =>
    unfold intOctets
    exact ok_append (ih _) (by intro x hx; simp at hx; omega)

theorem intBytes_ok (i : Int) : Bytes.ok (intBytes i) := intOctets_ok _ _

theorem header_ok_low (cls : Nat) (c : Bool) (tag n : Nat) (hc : cls ≤ 3) (ht : tag ≤ 30) : Bytes.ok (header cls c tag n) := by
  unfold header
  simp only [ht, if_true]
  have hd := lenDigits_ok n 8
  apply ok_append
  · intro x hx; simp at hx; subst hx; split <;> omega
  · split
    · intro x hx; simp at hx; omega
    · intro x hx
      rcases List.mem_cons.mp hx with h | h
      · have := hd.2; omega
      · exact hd.1 x h

theorem header_ok_200 (n : Nat) : Bytes.ok (header 2 true 200 n) := by
  unfold header
  have h200 : highTag 200 = [129, 72] := by decide
  simp only [show ¬ (200 ≤ 30) by decide, if_false, h200]
  have hd := lenDigits_ok n 8
  apply ok_append
  · intro x hx; simp at hx; omega
  · split
    · intro x hx; simp at hx; omega
    · intro x hx
      rcases List.mem_cons.mp hx with h | h
      · have := hd.2; omega
      · exact hd.1 x h

theorem tlv_ok_low (cls : Nat) (c : Bool) (tag : Nat) (content : Bytes) (hc : cls ≤ 3) (ht : tag ≤ 30)
    (h : Bytes.ok content) : Bytes.ok (tlv cls c tag content) :=
  ok_append (header_ok_low cls c tag _ hc ht) h

theorem intF_ok (k : Nat) (i : Int) (hk : k ≤ 30) : Bytes.ok (intF k i) :=
  tlv_ok_low 2 false k _ (by decide) hk (intBytes_ok i)

theorem contsEnc_ok (cs : List Container) : Bytes.ok (contsEnc cs) := by
  induction cs with
  | nil => exact ok_nil
  | cons c r ih =>
    refine ok_append (tlv_ok_low 0 true 16 _ (by decide) (by decide) ?_) ih
    exact ok_append (intF_ok 4 _ (by decide)) (ok_append (intF_ok 5 _ (by decide)) (ok_append (intF_ok 6 _ (by decide))
      (ok_append (intF_ok 7 _ (by decide)) (ok_append (intF_ok 9 _ (by decide)) ok_nil))))

theorem usagesEnc_ok (us : List RecUsage) (h : ∀ u ∈ us, Bytes.ok u.upf) : Bytes.ok (usagesEnc us) := by
  induction us with
  | nil => exact ok_nil
  | cons u r ih =>
    refine ok_append (tlv_ok_low 0 true 16 _ (by decide) (by decide) ?_) (ih (fun x hx => h x (by simp [hx])))
    exact ok_append (intF_ok 0 _ (by decide)) (ok_append (tlv_ok_low 2 true 1 _ (by decide) (by decide) (contsEnc_ok _))
      (ok_append (tlv_ok_low 2 false 2 _ (by decide) (by decide) (h u (by simp))) ok_nil))

/-- the strings of the record are octet strings -/
def RecOctets (e : RecEnv) (r : Record) : Prop :=
  Bytes.ok e.nfId ∧ Bytes.ok e.openTime ∧ Bytes.ok r.subData ∧ (∀ b, r.nf = some b → Bytes.ok b) ∧
  (∀ b, r.sid = some b → Bytes.ok b) ∧ ∀ u ∈ r.usage, Bytes.ok u.upf

theorem optF_ok (k : Nat) (o : Option Bytes) (hk : k ≤ 30) (h : ∀ b, o = some b → Bytes.ok b) : Bytes.ok (optF 2 k o) := by
  cases o with
  | none => exact ok_nil
  | some b => exact tlv_ok_low 2 false k _ (by decide) hk (h b rfl)

theorem recordEnc_ok (e : RecEnv) (r : Record) (h : RecOctets e r) : Bytes.ok (recordEnc e r) := by
  obtain ⟨h1, h2, h3, h4, h5, h6⟩ := h
  unfold recordEnc tlv
  refine ok_append (header_ok_200 _) ?_
  unfold recordContent
  have hl : Bytes.ok (usageListEnc r.usage) := by
    cases hu : r.usage with
    | nil => exact ok_nil
    | cons u us => rw [hu] at h6; exact tlv_ok_low 2 true 5 _ (by decide) (by decide) (usagesEnc_ok _ h6)
  have h8 : Bytes.ok (match r.rsn with | some n => intF 8 n | none => []) := by
    cases r.rsn with
    | none => exact ok_nil
    | some n => exact intF_ok 8 _ (by decide)
  exact ok_append (intF_ok 0 _ (by decide)) (ok_append (tlv_ok_low 2 false 1 _ (by decide) (by decide) h1)
    (ok_append (tlv_ok_low 2 true 2 _ (by decide) (by decide)
      (ok_append (tlv_ok_low 2 false 0 _ (by decide) (by decide) (intBytes_ok _)) (ok_append (tlv_ok_low 2 false 1 _ (by decide) (by decide) h3) ok_nil)))
    (ok_append (tlv_ok_low 2 true 3 _ (by decide) (by decide)
      (ok_append (tlv_ok_low 2 false 0 _ (by decide) (by decide) (intBytes_ok _)) (ok_append (optF_ok 1 _ (by decide) h4) ok_nil)))
    (ok_append hl (ok_append (tlv_ok_low 2 false 6 _ (by decide) (by decide) h2) (ok_append (intF_ok 7 _ (by decide))
    (ok_append h8 (ok_append (intF_ok 9 _ (by decide)) (ok_append (intF_ok 11 _ (by decide))
    (ok_append (optF_ok 16 _ (by decide) h5) (ok_append (intF_ok 27 _ (by decide)) ok_nil)))))))))))

end Chf.RecordBer
