import ChfVerif.Lemmas.Charging
/- step-level lemmas: how each operation of the charging model moves accounts and reservations -/
namespace Chf.Charging
open Chf
open Chf.Abmf (find put)

theorem findUe_supi {ues : List Ue} {supi : Bytes} {u : Ue} (h : findUe ues supi = some u) : u.supi = supi := by
  induction ues with
  | nil => simp [findUe] at h
  | cons x r ih =>
    unfold findUe at h
    by_cases hx : x.supi = supi
    · simp only [hx, if_true, Option.some.injEq] at h; rw [← h]; exact hx
    · simp only [hx, if_false] at h; exact ih h

theorem findUe_putUe_same (ues : List Ue) (u : Ue) : findUe (putUe ues u) u.supi = some u := by
  induction ues with
  | nil => simp [putUe, findUe]
  | cons x r ih =>
    unfold putUe
    by_cases hx : x.supi = u.supi
    · simp [hx, findUe]
    · simp [hx, findUe, ih]

theorem findUe_putUe_other (ues : List Ue) (u : Ue) (supi : Bytes) (h : supi ≠ u.supi) :
    findUe (putUe ues u) supi = findUe ues supi := by
  induction ues with
  | nil => simp [putUe, findUe, Ne.symm h]
  | cons x r ih =>
    unfold putUe
    by_cases hx : x.supi = u.supi
    · have : ¬ x.supi = supi := fun e => h (e ▸ hx)
      simp [hx, findUe, Ne.symm h, this]
    · simp only [hx, if_false, findUe]
      by_cases hx2 : x.supi = supi
      · simp [hx2]
      · simp [hx2, ih]

theorem total_congr {s s' : State} {supi : Bytes} {rg : Int}
    (ha : balOf s'.accts supi (u32 rg) = balOf s.accts supi (u32 rg))
    (hg : resv (groupsOf s' supi) rg = resv (groupsOf s supi) rg) : total s' supi rg = total s supi rg := by
  unfold total moneyOf; rw [ha, hg]

theorem groupsOf_putUe_same (s : State) (a : Abmf.Store) (u : Ue) :
    groupsOf { s with accts := a, ues := putUe s.ues u } u.supi = u.groups := by
  unfold groupsOf; simp only [findUe_putUe_same]

theorem groupsOf_putUe_other (s : State) (a : Abmf.Store) (u : Ue) (supi : Bytes) (h : supi ≠ u.supi) :
    groupsOf { s with accts := a, ues := putUe s.ues u } supi = groupsOf s supi := by
  unfold groupsOf; simp only [findUe_putUe_other _ _ _ h]

theorem update_state {guard : SplitGuard} {s : State} {sid : Bytes} {r : Req} {ue : Ue} {idx : Nat}
    (hu : findUe s.ues r.supi = some ue) (hl : lookupSid ue.cdr sid = some idx) :
    ∃ ue' : Ue, (update guard s sid r).1 =
        { s with accts := acctsAfter s (creditControl (seenTariffs s) r.supi r.trigs (seenAccts s) ue.groups r.usages).1, ues := putUe s.ues ue' } ∧
      ue'.supi = ue.supi ∧ ue'.groups = (creditControl (seenTariffs s) r.supi r.trigs (seenAccts s) ue.groups r.usages).2.1 := by
  simp only [update, hu, hl]
  exact ⟨_, rfl, rfl, rfl⟩

theorem release_state {s : State} {sid : Bytes} {r : Req} {ue : Ue} {idx : Nat}
    (hu : findUe s.ues r.supi = some ue) (hl : lookupSid ue.cdr sid = some idx) :
    ∃ ue' : Ue, (release s sid r).1 =
        { s with accts := acctsAfter s (creditControl (seenTariffs s) r.supi r.trigs (seenAccts s) ue.groups r.usages).1, ues := putUe s.ues ue' } ∧
      ue'.supi = ue.supi ∧ ue'.groups = (creditControl (seenTariffs s) r.supi r.trigs (seenAccts s) ue.groups r.usages).2.1 := by
  simp only [release, hu, hl]
  exact ⟨_, rfl, rfl, rfl⟩

theorem charged_step {guard : SplitGuard} {s : State} {op : Op} {supi' : Bytes} {trigs : List Nat}
    {groups : List (Int × RgState)} {us : List Usage} (h : chargedUsages s op = some (supi', trigs, groups, us)) :
    (step guard s op).1.accts = acctsAfter s (creditControl (seenTariffs s) supi' trigs (seenAccts s) groups us).1 ∧
    groupsOf (step guard s op).1 supi' = (creditControl (seenTariffs s) supi' trigs (seenAccts s) groups us).2.1 ∧
    (∀ supi, supi ≠ supi' → groupsOf (step guard s op).1 supi = groupsOf s supi) ∧
    groupsOf s supi' = groups := by
  have key : ∀ (sid : Bytes) (r : Req) (st' : State),
      chargedUsages s op = (match findUe s.ues r.supi with
        | none => none
        | some ue => match lookupSid ue.cdr sid with
          | none => none
          | some _ => some (r.supi, r.trigs, ue.groups, r.usages)) →
      (∀ ue idx, findUe s.ues r.supi = some ue → lookupSid ue.cdr sid = some idx →
        ∃ ue' : Ue, st' = { s with accts := acctsAfter s (creditControl (seenTariffs s) r.supi r.trigs (seenAccts s) ue.groups r.usages).1,
                                   ues := putUe s.ues ue' } ∧
          ue'.supi = ue.supi ∧ ue'.groups = (creditControl (seenTariffs s) r.supi r.trigs (seenAccts s) ue.groups r.usages).2.1) →
      st'.accts = acctsAfter s (creditControl (seenTariffs s) supi' trigs (seenAccts s) groups us).1 ∧
      groupsOf st' supi' = (creditControl (seenTariffs s) supi' trigs (seenAccts s) groups us).2.1 ∧
      (∀ supi, supi ≠ supi' → groupsOf st' supi = groupsOf s supi) ∧
      groupsOf s supi' = groups := by
    intro sid r st' hc hst
    rw [hc] at h
    cases hu : findUe s.ues r.supi with
    | none => simp [hu] at h
    | some ue =>
      simp only [hu] at h
      cases hl : lookupSid ue.cdr sid with
      | none => simp [hl] at h
      | some idx =>
        simp only [hl, Option.some.injEq, Prod.mk.injEq] at h
        obtain ⟨h1, h2, h3, h4⟩ := h
        subst h1 h2 h3 h4
        obtain ⟨ue', hs', hsupi', hg'⟩ := hst ue idx hu hl
        have hsupi := findUe_supi hu
        subst hs'
        refine ⟨rfl, ?_, ?_, ?_⟩
        · rw [← hsupi, ← hsupi', groupsOf_putUe_same, hg', hsupi', hsupi]
        · intro supi hne
          exact groupsOf_putUe_other _ _ _ _ (by rw [hsupi', hsupi]; exact hne)
        · unfold groupsOf; rw [hu]
  cases op with
  | update sid r => exact key sid r _ rfl (fun ue idx hu hl => update_state hu hl)
  | release sid r => exact key sid r _ rfl (fun ue idx hu hl => release_state hu hl)
  | create r => simp [chargedUsages] at h
  | recharge i => simp [chargedUsages] at h
  | credit a b c => simp [chargedUsages] at h


theorem resv_recharge (groups : List (Int × RgState)) (rg rg' : Int) :
    resv (setRg groups rg { (match getRg groups rg with | some x => x | none => ({} : RgState)) with mode := 1 }) rg' =
      resv groups rg' := by
  by_cases h : rg' = rg
  · subst h
    rw [resv_setRg_same]
    unfold resv
    cases getRg groups rg' <;> rfl
  · exact resv_setRg_other _ _ _ _ h

theorem groupsOf_ues_same {s s' : State} {u : Ue} (h : s'.ues = putUe s.ues u) : groupsOf s' u.supi = u.groups := by
  unfold groupsOf; rw [h, findUe_putUe_same]

theorem groupsOf_ues_other {s s' : State} {u : Ue} (h : s'.ues = putUe s.ues u) (supi : Bytes) (hne : supi ≠ u.supi) :
    groupsOf s' supi = groupsOf s supi := by
  unfold groupsOf; rw [h, findUe_putUe_other _ _ _ hne]

theorem create_state (s : State) (r : Req) :
    (create s r).1 = s ∨
    ∃ ue' : Ue, (create s r).1.ues = putUe s.ues ue' ∧ (create s r).1.accts = s.accts ∧
      ue'.supi = r.supi ∧ ue'.groups = groupsOf s r.supi := by
  unfold create
  cases hnf : r.nf with
  | none => left; rfl
  | some nf =>
    simp only
    by_cases hp : supiAccepted r.supi = true
    · right
      simp only [hp, not_true_eq_false, if_false]
      by_cases hb : r.bad = true
      · simp only [hb, if_true]
        refine ⟨_, rfl, trivial, ?_, ?_⟩
        · cases hu : findUe s.ues r.supi with
          | none => rfl
          | some ue => simp only; exact findUe_supi hu
        · unfold groupsOf
          cases hu : findUe s.ues r.supi <;> rfl
      · simp only [hb, Bool.false_eq_true, if_false]
        refine ⟨_, rfl, trivial, ?_, ?_⟩
        · cases hu : findUe s.ues r.supi with
          | none => rfl
          | some ue => simp only; exact findUe_supi hu
        · unfold groupsOf
          cases hu : findUe s.ues r.supi <;> rfl
    · left; simp [hp]

theorem recharge_state (s : State) (info : Bytes) :
    (recharge s info).1 = s ∨
    ∃ (ue ue' : Ue) (rg : Int), findUe s.ues ue.supi = some ue ∧ (recharge s info).1.ues = putUe s.ues ue' ∧
      (recharge s info).1.accts = s.accts ∧ ue'.supi = ue.supi ∧
      ue'.groups = setRg ue.groups rg { (match getRg ue.groups rg with | some x => x | none => ({} : RgState)) with mode := 1 } := by
  unfold recharge
  split
  · rename_i ueId rgStr _
    cases hp : parseInt32 rgStr with
    | none => left; rfl
    | some rg =>
      simp only
      cases hu : findUe s.ues ueId with
      | none => left; rfl
      | some ue =>
        right
        have hsupi := findUe_supi hu
        exact ⟨ue, _, rg, by rw [hsupi]; exact hu, rfl, rfl, rfl, rfl⟩
  · left; rfl

/-- operations that do not reach credit control leave every account and every reservation as they are
    (an external credit changes the credited account only) -/
theorem uncharged_step {guard : SplitGuard} {s : State} {op : Op} (h : chargedUsages s op = none) :
    (∀ supi rg, resv (groupsOf (step guard s op).1 supi) rg = resv (groupsOf s supi) rg) ∧
    (∀ supi rg, (∀ a b c, op = .credit a b c → ¬ (a = supi ∧ b = rg)) →
      balOf (step guard s op).1.accts supi rg = balOf s.accts supi rg) := by
  cases op with
  | update sid r =>
    simp only [chargedUsages] at h
    simp only [step, update]
    cases hu : findUe s.ues r.supi with
    | none => simp
    | some ue =>
      simp only [hu] at h ⊢
      cases hl : lookupSid ue.cdr sid with
      | none => simp
      | some idx => simp [hl] at h
  | release sid r =>
    simp only [chargedUsages] at h
    simp only [step, release]
    cases hu : findUe s.ues r.supi with
    | none => simp
    | some ue =>
      simp only [hu] at h ⊢
      cases hl : lookupSid ue.cdr sid with
      | none => simp
      | some idx => simp [hl] at h
  | create r =>
    simp only [step]
    rcases create_state s r with hs | ⟨ue', hues, hacc, hsupi, hg⟩
    · rw [hs]; simp
    · constructor
      · intro supi rg
        by_cases hne : supi = ue'.supi
        · rw [hne, groupsOf_ues_same hues, hg, hsupi]
        · rw [groupsOf_ues_other hues supi hne]
      · intro supi rg _; rw [hacc]
  | recharge info =>
    simp only [step]
    rcases recharge_state s info with hs | ⟨ue, ue', rg0, hfind, hues, hacc, hsupi, hg⟩
    · rw [hs]; simp
    · constructor
      · intro supi rg
        by_cases hne : supi = ue'.supi
        · rw [hne, groupsOf_ues_same hues, hg, resv_recharge]
          unfold groupsOf; rw [hsupi, hfind]
        · rw [groupsOf_ues_other hues supi hne]
      · intro supi rg _; rw [hacc]
  | credit a b c =>
    simp only [step, creditAcct]
    constructor
    · intro supi rg
      cases hf : find s.accts a b with
      | none => rfl
      | some q =>
        cases hp : q.parse with
        | none => simp only [hp]
        | some v => simp only [hp]; rfl
    · intro supi rg hne
      have hne' := hne a b c rfl
      cases hf : find s.accts a b with
      | none => rfl
      | some q =>
        cases hp : q.parse with
        | none => simp only [hp]
        | some v => simp only [hp]; exact balOf_put_other _ (fun h => hne' ⟨h.1.symm, h.2.symm⟩)

/-- arithmetic of the reserve branch for a consumer whose reported usage is covered by the reservation
    (`used·c ≤ r`) on an account that is not overdrawn -/
theorem gOf_facts (r1 reqQ b : Int) (hb : 0 ≤ b) (hr : 0 ≤ r1) :
    0 ≤ (if r1 < reqQ then if reqQ - r1 > b then max b 0 else reqQ - r1 else 0) ∧
    (if r1 < reqQ then if reqQ - r1 > b then max b 0 else reqQ - r1 else 0) ≤ b := by
  by_cases h1 : r1 < reqQ
  · by_cases h2 : reqQ - r1 > b
    · simp only [h1, h2, if_true]; omega
    · simp only [h1, h2, if_true, if_false]; omega
  · simp only [h1, if_false]; omega

theorem reserveSpec_safe (b r : Int) (used reqVol c : Nat) (hb : 0 ≤ b) (hu : ((used * c : Nat) : Int) ≤ r) :
    0 ≤ (reserveSpec b r used reqVol c).1 ∧
    0 ≤ (reserveSpec b r used reqVol c).2.1 ∧
    (((reserveSpec b r used reqVol c).2.2.2 * c : Nat) : Int) ≤ (reserveSpec b r used reqVol c).2.1 ∧
    (reserveSpec b r used reqVol c).2.2.2 ≤ reqVol ∧
    ((reserveSpec b r used reqVol c).2.2.1 = true ↔ b + (r - ((used * c : Nat) : Int)) < ((reqVol * c : Nat) : Int)) := by
  simp only [reserveSpec]
  generalize hr1 : r - ((used * c : Nat) : Int) = r1
  generalize hq : ((reqVol * c : Nat) : Int) = reqQ
  have hr1n : 0 ≤ r1 := by omega
  have hqn : 0 ≤ reqQ := by omega
  obtain ⟨hg0, hgb⟩ := gOf_facts r1 reqQ b hb hr1n
  generalize hg : (if r1 < reqQ then if reqQ - r1 > b then max b 0 else reqQ - r1 else 0) = g at hg0 hgb ⊢
  refine ⟨by omega, by omega, ?_, Nat.min_le_right _ _, ?_⟩
  · -- granted·c ≤ r2
    have hav0 : 0 ≤ (if r1 + g < reqQ then max (r1 + g) 0 else reqQ) ∧
        (if r1 + g < reqQ then max (r1 + g) 0 else reqQ) ≤ r1 + g := by
      by_cases h : r1 + g < reqQ
      · simp only [h, if_true]; omega
      · simp only [h, if_false]; omega
    generalize hav : (if r1 + g < reqQ then max (r1 + g) 0 else reqQ) = avail at hav0 ⊢
    by_cases hc : c = 0
    · subst hc; simp; omega
    · simp only [hc, if_false]
      have h1 : min (avail.toNat / c) reqVol * c ≤ avail.toNat / c * c :=
        Nat.mul_le_mul_right c (Nat.min_le_left _ _)
      have h2 : avail.toNat / c * c ≤ avail.toNat := Nat.div_mul_le_self _ _
      have h3 : ((avail.toNat : Nat) : Int) = avail := Int.toNat_of_nonneg hav0.1
      omega
  · simp only [decide_eq_true_eq]
    constructor
    · intro ⟨h1, h2⟩; omega
    · intro h; constructor <;> omega

/-- without a final-unit indication the full requested volume is granted (unit cost > 0) -/
theorem reserveSpec_full (b r : Int) (used reqVol c : Nat) (hc : 0 < c) (hu : ((used * c : Nat) : Int) ≤ r)
    (hf : (reserveSpec b r used reqVol c).2.2.1 = false) : (reserveSpec b r used reqVol c).2.2.2 = reqVol := by
  simp only [reserveSpec] at hf ⊢
  generalize hr1 : r - ((used * c : Nat) : Int) = r1 at hf ⊢
  have hne : c ≠ 0 := by omega
  simp only [hne, if_false]
  simp only [decide_eq_false_iff_not, not_and, Int.not_lt] at hf
  have hav : (if r1 + (if r1 < ((reqVol * c : Nat) : Int) then if ((reqVol * c : Nat) : Int) - r1 > b then max b 0
      else ((reqVol * c : Nat) : Int) - r1 else 0) < ((reqVol * c : Nat) : Int)
      then max (r1 + (if r1 < ((reqVol * c : Nat) : Int) then if ((reqVol * c : Nat) : Int) - r1 > b then max b 0
      else ((reqVol * c : Nat) : Int) - r1 else 0)) 0 else ((reqVol * c : Nat) : Int)) = ((reqVol * c : Nat) : Int) := by
    by_cases h1 : r1 < ((reqVol * c : Nat) : Int)
    · have := hf h1
      simp only [h1, if_true]
      have h2 : ¬ (((reqVol * c : Nat) : Int) - r1 > b) := by omega
      simp only [h2, if_false]
      have h3 : ¬ (r1 + (((reqVol * c : Nat) : Int) - r1) < ((reqVol * c : Nat) : Int)) := by omega
      simp only [h3, if_false]
    · simp only [h1, if_false, Int.add_zero]
  rw [hav, Int.toNat_natCast, Nat.mul_div_cancel _ hc, Nat.min_self]

/-- with a final-unit indication the grant is exactly what the available money buys -/
theorem reserveSpec_limited (b r : Int) (used reqVol c : Nat) (hc : 0 < c) (hb : 0 ≤ b) (hu : ((used * c : Nat) : Int) ≤ r)
    (hf : (reserveSpec b r used reqVol c).2.2.1 = true) :
    (reserveSpec b r used reqVol c).2.2.2 = (b + (r - ((used * c : Nat) : Int))).toNat / c := by
  simp only [reserveSpec] at hf ⊢
  generalize hr1 : r - ((used * c : Nat) : Int) = r1 at hf ⊢
  have hr1n : 0 ≤ r1 := by omega
  have hne : c ≠ 0 := by omega
  simp only [hne, if_false]
  simp only [decide_eq_true_eq] at hf
  obtain ⟨h1, h2⟩ := hf
  simp only [h1, h2, if_true]
  have hm : max b 0 = b := by omega
  rw [hm]
  have h3 : r1 + b < ((reqVol * c : Nat) : Int) := by omega
  simp only [h3, if_true]
  have hm2 : max (r1 + b) 0 = r1 + b := by omega
  rw [hm2, Int.add_comm r1 b]
  apply Nat.min_eq_left
  -- (b + r1)/c ≤ reqVol because b + r1 < reqVol·c
  have : (b + r1).toNat < reqVol * c := by
    have := Int.toNat_of_nonneg (show 0 ≤ b + r1 by omega)
    omega
  exact Nat.le_of_lt (Nat.div_lt_of_lt_mul (by rw [Nat.mul_comm]; exact this))

theorem debitSpec_safe (b r : Int) (used c mode : Nat) (hb : 0 ≤ b) (hu : ((used * c : Nat) : Int) ≤ r) :
    0 ≤ (debitSpec b r used c mode).1 := by
  rw [debitSpec_money]; omega

theorem lastGrant_set_same (L : Ledger) (rg : Int) (g : Nat) : lastGrant (setGrant L rg g) rg = g := by
  induction L with
  | nil => simp [setGrant, lastGrant]
  | cons a r ih =>
    obtain ⟨k, v⟩ := a
    unfold setGrant
    by_cases hk : k = rg
    · simp [hk, lastGrant]
    · simp [hk, lastGrant, ih]

theorem lastGrant_set_other (L : Ledger) (rg rg' : Int) (g : Nat) (h : rg' ≠ rg) :
    lastGrant (setGrant L rg g) rg' = lastGrant L rg' := by
  induction L with
  | nil => simp [setGrant, lastGrant, Ne.symm h]
  | cons a r ih =>
    obtain ⟨k, v⟩ := a
    unfold setGrant
    by_cases hk : k = rg
    · subst hk; simp [lastGrant, Ne.symm h]
    · simp only [hk, if_false, lastGrant]
      by_cases hk2 : k = rg'
      · simp [hk2]
      · simp [hk2, ih]

/-- every grant on the ledger is backed by reserved money -/
def Backed (tariffs : List Rating.Tariff) (supi : Bytes) (groups : List (Int × RgState)) (L : Ledger) : Prop :=
  ∀ rg s, int32 rg → Rating.findCost tariffs supi (u32 rg) = some s →
    ((lastGrant L rg * costOf s : Nat) : Int) ≤ resv groups rg

/-- no account is overdrawn -/
def NonNeg (accts : Abmf.Store) : Prop := ∀ supi rg b, balOf accts supi rg = some b → 0 ≤ b

theorem usageStep_safe {e : Env} {supi : Bytes} {trigs : List Nat} {groups : List (Int × RgState)} {u : Usage}
    {L : Ledger} (ok : usageOKb e supi trigs groups u = true)
    (hB : Backed e.tariffs supi groups L) (hN : NonNeg e.accts)
    (hc : anyOnline u.cs = true → totalUsed u.cs ≤ lastGrant L u.rg) :
    Backed e.tariffs supi (usageStep e supi trigs groups u).2.1 (ledgerStep L u (usageStep e supi trigs groups u).2.2) ∧
    NonNeg (usageStep e supi trigs groups u).1 := by
  unfold usageOKb at ok
  unfold usageStep
  by_cases hon : anyOnline u.cs = true
  · simp only [hon, if_true, not_true_eq_false, if_false] at ok ⊢
    cases hb : balOf e.accts supi (u32 u.rg) with
    | none => simp [hb] at ok
    | some b =>
      cases ht : Rating.findCost e.tariffs supi (u32 u.rg) with
      | none => simp [hb, ht] at ok
      | some s =>
        simp only [hb, ht, Bool.and_eq_true, decide_eq_true_eq] at ok
        obtain ⟨⟨⟨⟨⟨⟨hs, hu⟩, hr⟩, hbr⟩, hrr⟩, hrg32⟩, hmode⟩ := ok
        have hok : UsageOK e supi u (entryState trigs groups u) b s :=
          ⟨hs, hb, ht, hu, hr, hbr, by rw [entryState_reserved]; exact hrr⟩
        have hb0 : 0 ≤ b := hN _ _ _ hb
        have hcov : ((totalUsed u.cs * costOf s : Nat) : Int) ≤ (entryState trigs groups u).reserved := by
          rw [entryState_reserved]
          have h1 := hB u.rg s hrg32 ht
          have h2 : totalUsed u.cs * costOf s ≤ lastGrant L u.rg * costOf s := Nat.mul_le_mul_right _ (hc hon)
          omega
        -- common closing argument, given the branch's balance / reservation / grant
        have close : ∀ (out : RgOut) (b' : Int) (g : Nat),
            balOf out.accts supi (u32 u.rg) = some b' → 0 ≤ b' →
            ((g * costOf s : Nat) : Int) ≤ out.st.reserved →
            out.mui = some { rg := u.rg, granted := g, fui := (out.mui.map (·.fui)).getD false } →
            (∀ supi' rg', ¬ (supi' = supi ∧ rg' = u32 u.rg) → balOf out.accts supi' rg' = balOf e.accts supi' rg') →
            Backed e.tariffs supi (setRg groups u.rg out.st) (ledgerStep L u out.mui) ∧ NonNeg out.accts := by
          intro out b' g hbal hb'0 hback hmui hframe
          constructor
          · intro rg s' hrg hs'
            rw [hmui]
            simp only [ledgerStep]
            by_cases heq : rg = u.rg
            · rw [heq] at hs' ⊢
              rw [ht] at hs'
              cases hs'
              rw [lastGrant_set_same, resv_setRg_same]
              exact hback
            · rw [lastGrant_set_other _ _ _ _ heq, resv_setRg_other _ _ _ _ heq]
              exact hB rg s' hrg hs'
          · intro supi' rg' v hv
            by_cases hk : supi' = supi ∧ rg' = u32 u.rg
            · rw [hk.1, hk.2, hbal] at hv
              cases hv; exact hb'0
            · rw [hframe _ _ hk] at hv
              exact hN _ _ _ hv
        rcases hmode with hm | hm
        · simp only [hm, if_true]
          obtain ⟨c1, c2, c3, c4⟩ := reserve_char hok
          obtain ⟨s1, s2, s3, _, _⟩ := reserveSpec_safe b (entryState trigs groups u).reserved (totalUsed u.cs)
            (reqVolOf u) (costOf s) hb0 hcov
          exact close _ _ _ c1 s1 (by rw [c2]; exact s3) (by rw [c3]; rfl) c4
        · have h21 : ¬ ((2 : Nat) = 1) := by decide
          simp only [hm, h21, if_false, if_true]
          obtain ⟨c1, c2, c3, c4⟩ := debit_char hok
          have s1 := debitSpec_safe b (entryState trigs groups u).reserved (totalUsed u.cs) (costOf s)
            (entryState trigs groups u).mode hb0 hcov
          exact close _ _ 0 c1 s1 (by rw [c2]; simp) (by rw [c3]; rfl) c4
  · simp only [hon, if_false, Bool.false_eq_true, not_false_eq_true, if_true] at ok ⊢
    constructor
    · intro rg s' hrg hs'
      simp only [ledgerStep]
      by_cases heq : rg = u.rg
      · rw [heq, resv_setRg_same, entryState_reserved]
        rw [heq] at hs'
        exact hB u.rg s' (by rw [← heq]; exact hrg) hs'
      · rw [resv_setRg_other _ _ _ _ heq]
        exact hB rg s' hrg hs'
    · exact hN

theorem ledgerOf_set_same (Ls : Ledgers) (supi : Bytes) (l : Ledger) : ledgerOf (setLedger Ls supi l) supi = l := by
  induction Ls with
  | nil => simp [setLedger, ledgerOf]
  | cons a r ih =>
    obtain ⟨k, v⟩ := a
    unfold setLedger
    by_cases hk : k = supi
    · simp [hk, ledgerOf]
    · simp [hk, ledgerOf, ih]

theorem ledgerOf_set_other (Ls : Ledgers) (supi supi' : Bytes) (l : Ledger) (h : supi' ≠ supi) :
    ledgerOf (setLedger Ls supi l) supi' = ledgerOf Ls supi' := by
  induction Ls with
  | nil => simp [setLedger, ledgerOf, Ne.symm h]
  | cons a r ih =>
    obtain ⟨k, v⟩ := a
    unfold setLedger
    by_cases hk : k = supi
    · subst hk; simp [ledgerOf, Ne.symm h]
    · simp only [hk, if_false, ledgerOf]
      by_cases hk2 : k = supi'
      · simp [hk2]
      · simp [hk2, ih]

theorem creditControl_safe (tariffs : List Rating.Tariff) (supi : Bytes) (trigs : List Nat) (us : List Usage) :
    ∀ (accts : Abmf.Store) (groups : List (Int × RgState)) (L : Ledger),
    ccOKb tariffs supi trigs accts groups us = true →
    compliantCC tariffs supi trigs accts groups L us = true →
    Backed tariffs supi groups L → NonNeg accts →
    Backed tariffs supi (creditControl tariffs supi trigs accts groups us).2.1 (ledgerCC tariffs supi trigs accts groups L us) ∧
    NonNeg (creditControl tariffs supi trigs accts groups us).1 := by
  induction us with
  | nil => intro accts groups L _ _ hB hN; exact ⟨hB, hN⟩
  | cons u r ih =>
    intro accts groups L hok hcomp hB hN
    simp only [ccOKb, Bool.and_eq_true] at hok
    simp only [compliantCC, Bool.and_eq_true, Bool.or_eq_true, Bool.not_eq_true', decide_eq_true_eq] at hcomp
    obtain ⟨h1, h2⟩ := hok
    obtain ⟨c1, c2⟩ := hcomp
    have hc : anyOnline u.cs = true → totalUsed u.cs ≤ lastGrant L u.rg := by
      intro hon; rcases c1 with c | c
      · rw [hon] at c; cases c
      · exact c
    obtain ⟨hB', hN'⟩ := usageStep_safe (e := { accts := accts, tariffs := tariffs }) h1 hB hN hc
    simp only [creditControl, ledgerCC]
    exact ih _ _ _ h2 c2 hB' hN'

theorem step_tariffs (guard : SplitGuard) (s : State) (op : Op) : (step guard s op).1.tariffs = s.tariffs := by
  cases op with
  | create r =>
    simp only [step, create]
    split
    · rfl
    · split
      · rfl
      · split <;> rfl
  | update sid r =>
    simp only [step, update]
    split
    · rfl
    · split <;> rfl
  | release sid r =>
    simp only [step, release]
    split
    · rfl
    · split <;> rfl
  | recharge info =>
    simp only [step, recharge]
    split
    · split
      · rfl
      · split <;> rfl
    · rfl
  | credit a b c =>
    simp only [step, creditAcct]
    split
    · split <;> rfl
    · rfl

end Chf.Charging
