import ChfVerif.Lemmas.ChargingSids
import ChfVerif.Lemmas.ChargingRecords
import ChfVerif.Lemmas.ChargingStep
/-
  Per-session, in-order bookkeeping of reported usage (C02 at full strength).

  `sessUsage s supi sid` = the usage entries of the records of subscriber `supi` that carry the session reference
  `sid`, in record order and, within a record, in list order.  `sess_step`: every operation appends exactly what it
  contributes to that session (the usage of an accepted create that returned `sid`, of an accepted update / release
  addressed to `sid`) AT THE END and leaves every other session's usage as it was — under the invariant `SessInv`
  (the session map designates the last record of the session, record references carry smaller sequence numbers than
  the counter, the map has no duplicate keys), which every operation preserves.
-/
namespace Chf.Charging
open Chf

/-! ### list-level facts -/

def sessUsageRecs : List Record → Bytes → List RecUsage
  | [], _ => []
  | r :: rs, sid => (if r.sid = some sid then r.usage else []) ++ sessUsageRecs rs sid

def sidsOf (rs : List Record) : List (Option Bytes) := rs.map (·.sid)

theorem sess_append (rs : List Record) (r : Record) (sid : Bytes) :
    sessUsageRecs (rs ++ [r]) sid = sessUsageRecs rs sid ++ (if r.sid = some sid then r.usage else []) := by
  induction rs with
  | nil => simp [sessUsageRecs]
  | cons a t ih => simp [sessUsageRecs, ih]

theorem sidsOf_set (rs : List Record) (i : Nat) (r' : Record) (h : ∀ r, rs[i]? = some r → r'.sid = r.sid) :
    sidsOf (rs.set i r') = sidsOf rs := by
  induction rs generalizing i with
  | nil => rfl
  | cons a t ih =>
    cases i with
    | zero => simp [sidsOf, h a (by simp)]
    | succ n =>
      have := ih n (fun r hr => h r (by simpa using hr))
      simp only [sidsOf, List.set_cons_succ, List.map_cons] at this ⊢
      rw [this]

/-- appending to the usage of record `i` does not touch a session the record does not belong to -/
theorem sess_set_other (rs : List Record) (i : Nat) (r' : Record) (sid : Bytes)
    (h : ∀ r, rs[i]? = some r → r'.sid = r.sid ∧ r.sid ≠ some sid) :
    sessUsageRecs (rs.set i r') sid = sessUsageRecs rs sid := by
  induction rs generalizing i with
  | nil => rfl
  | cons a t ih =>
    cases i with
    | zero =>
      obtain ⟨h1, h2⟩ := h a (by simp)
      simp [sessUsageRecs, h1, h2]
    | succ n =>
      simp only [List.set_cons_succ, sessUsageRecs]
      rw [ih n (fun r hr => h r (by simpa using hr))]

/-- … and appends at the END of the session's usage when record `i` is the session's last record -/
theorem sess_set_last (rs : List Record) (i : Nat) (r' : Record) (sid : Bytes) (x : List RecUsage)
    (h : ∀ r, rs[i]? = some r → r'.sid = some sid ∧ r.sid = some sid ∧ r'.usage = r.usage ++ x)
    (hi : i < rs.length) (hlast : some sid ∉ (sidsOf rs).drop (i + 1)) :
    sessUsageRecs (rs.set i r') sid = sessUsageRecs rs sid ++ x := by
  induction rs generalizing i with
  | nil => simp at hi
  | cons a t ih =>
    cases i with
    | zero =>
      obtain ⟨h1, h2, h3⟩ := h a (by simp)
      have hn : sessUsageRecs t sid = [] := by
        simp only [sidsOf, List.map_cons, Nat.zero_add, List.drop_succ_cons, List.drop_zero] at hlast
        clear h ih hi h1 h2 h3
        induction t with
        | nil => rfl
        | cons b u ihu =>
          simp only [List.map_cons, List.mem_cons, not_or] at hlast
          simp only [sessUsageRecs]
          rw [ihu hlast.2]
          have : b.sid ≠ some sid := fun e => hlast.1 e.symm
          simp [this]
      simp [sessUsageRecs, h1, h2, h3, hn]
    | succ n =>
      simp only [List.set_cons_succ, sessUsageRecs]
      rw [ih n (fun r hr => h r (by simpa using hr)) (by simpa using hi) (by simpa [sidsOf] using hlast)]
      simp

/-! ### the session map -/

theorem mem_setSid_ne {m : List (Bytes × Nat)} {sid : Bytes} {v : Nat} {p : Bytes × Nat}
    (hnd : (m.map (·.1)).Nodup) (h : p ∈ setSid m sid v) : p = (sid, v) ∨ (p ∈ m ∧ p.1 ≠ sid) := by
  induction m with
  | nil => simp [setSid] at h; exact Or.inl h
  | cons a t ih =>
    obtain ⟨k, x⟩ := a
    simp only [List.map_cons, List.nodup_cons] at hnd
    unfold setSid at h
    by_cases hk : k = sid
    · simp only [hk, if_true, List.mem_cons] at h
      rcases h with h | h
      · exact Or.inl h
      · right
        refine ⟨List.mem_cons_of_mem _ h, ?_⟩
        intro e
        apply hnd.1
        rw [hk, ← e]
        exact List.mem_map_of_mem h
    · simp only [hk, if_false, List.mem_cons] at h
      rcases h with h | h
      · right; exact ⟨by rw [h]; exact List.mem_cons_self, by rw [h]; exact hk⟩
      · rcases ih hnd.2 h with h' | ⟨h', hne⟩
        · exact Or.inl h'
        · exact Or.inr ⟨List.mem_cons_of_mem _ h', hne⟩

theorem keys_setSid_sub {m : List (Bytes × Nat)} {sid : Bytes} {v : Nat} {k : Bytes}
    (h : k ∈ (setSid m sid v).map (·.1)) : k = sid ∨ k ∈ m.map (·.1) := by
  induction m with
  | nil => simp [setSid] at h; exact Or.inl h
  | cons a t ih =>
    obtain ⟨k', x⟩ := a
    unfold setSid at h
    by_cases hk : k' = sid
    · simp only [hk, if_true, List.map_cons, List.mem_cons] at h
      rcases h with h | h
      · exact Or.inl h
      · exact Or.inr (by simp only [List.map_cons, List.mem_cons]; exact Or.inr h)
    · simp only [hk, if_false, List.map_cons, List.mem_cons] at h
      rcases h with h | h
      · exact Or.inr (by simp [h])
      · rcases ih h with h' | h'
        · exact Or.inl h'
        · exact Or.inr (by simp only [List.map_cons, List.mem_cons]; exact Or.inr h')

theorem nodup_setSid {m : List (Bytes × Nat)} (sid : Bytes) (v : Nat) (hnd : (m.map (·.1)).Nodup) :
    ((setSid m sid v).map (·.1)).Nodup := by
  induction m with
  | nil => simp [setSid]
  | cons a t ih =>
    obtain ⟨k, x⟩ := a
    simp only [List.map_cons, List.nodup_cons] at hnd
    unfold setSid
    by_cases hk : k = sid
    · simp only [hk, if_true, List.map_cons, List.nodup_cons]
      exact ⟨by rw [← hk]; exact hnd.1, hnd.2⟩
    · simp only [hk, if_false, List.map_cons, List.nodup_cons]
      refine ⟨?_, ih hnd.2⟩
      intro hm
      rcases keys_setSid_sub hm with h | h
      · exact hk h
      · exact hnd.1 h

theorem nodup_removeSid {m : List (Bytes × Nat)} (sid : Bytes) (hnd : (m.map (·.1)).Nodup) :
    ((removeSid m sid).map (·.1)).Nodup := by
  induction m with
  | nil => simp [removeSid]
  | cons a t ih =>
    obtain ⟨k, x⟩ := a
    simp only [List.map_cons, List.nodup_cons] at hnd
    unfold removeSid
    by_cases hk : k = sid
    · simp only [hk, if_true]; exact hnd.2
    · simp only [hk, if_false, List.map_cons, List.nodup_cons]
      refine ⟨?_, ih hnd.2⟩
      intro hm
      apply hnd.1
      obtain ⟨p, hp, hpk⟩ := List.mem_map.mp hm
      exact List.mem_map.mpr ⟨p, mem_removeSid hp, hpk⟩

/-! ### the invariant -/

def SidBelow' (n : Nat) (k : Bytes) : Prop := ∃ supi nf m, k = sessionId supi nf m ∧ m < n

/-- session map and records of one subscriber context fit together -/
structure CrInv (n : Nat) (cdr : List (Bytes × Nat)) (rs : List Record) : Prop where
  nodup : (cdr.map (·.1)).Nodup
  idx : ∀ p ∈ cdr, p.2 < rs.length
  evt : ∀ p ∈ cdr, p.1 = [] → (sidsOf rs)[p.2]? = some none
  live : ∀ p ∈ cdr, p.1 ≠ [] → (sidsOf rs)[p.2]? = some (some p.1) ∧ some p.1 ∉ (sidsOf rs).drop (p.2 + 1)
  below : ∀ k, some k ∈ sidsOf rs → k ≠ [] ∧ SidBelow' n k

def SessInv (s : State) : Prop := ∀ u ∈ s.ues, CrInv s.sessionSeq u.cdr u.records

theorem CrInv.mono {n m : Nat} {cdr rs} (h : CrInv n cdr rs) (hnm : n ≤ m) : CrInv m cdr rs :=
  { h with below := fun k hk => ⟨(h.below k hk).1, by
      obtain ⟨a, b, c, e, lt⟩ := (h.below k hk).2
      exact ⟨a, b, c, e, by omega⟩⟩ }

theorem sidsOf_append (rs : List Record) (r : Record) : sidsOf (rs ++ [r]) = sidsOf rs ++ [r.sid] := by
  simp [sidsOf]

theorem sidsOf_length (rs : List Record) : (sidsOf rs).length = rs.length := by simp [sidsOf]

/-- a record is appended and `key` designates it: an event record (`key = []`, no reference in the record) or a
    record carrying `key` -/
theorem CrInv.append {n m : Nat} {cdr rs} (h : CrInv n cdr rs) (hnm : n ≤ m) (key : Bytes) (rec : Record)
    (hk : (key = [] ∧ rec.sid = none) ∨ (key ≠ [] ∧ rec.sid = some key ∧ SidBelow' m key)) :
    CrInv m (setSid cdr key rs.length) (rs ++ [rec]) := by
  have hm := h.mono hnm
  refine ⟨nodup_setSid _ _ h.nodup, ?_, ?_, ?_, ?_⟩
  · intro p hp
    rcases mem_setSid_ne h.nodup hp with rfl | ⟨hp', _⟩
    · simp
    · have := h.idx p hp'; simp; omega
  · intro p hp hnil
    rw [sidsOf_append]
    rcases mem_setSid_ne h.nodup hp with rfl | ⟨hp', _⟩
    · rcases hk with ⟨_, hs⟩ | ⟨hne, _, _⟩
      · simp [hs, sidsOf_length]
      · exact absurd hnil hne
    · have hi := h.idx p hp'
      rw [List.getElem?_append_left (by rw [sidsOf_length]; exact hi)]
      exact h.evt p hp' hnil
  · intro p hp hne
    rw [sidsOf_append]
    rcases mem_setSid_ne h.nodup hp with rfl | ⟨hp', hpk⟩
    · rcases hk with ⟨hnil, _⟩ | ⟨_, hs, _⟩
      · exact absurd hnil hne
      · refine ⟨by simp [hs, sidsOf_length], ?_⟩
        rw [List.drop_of_length_le (by simp [sidsOf_length])]
        simp
    · have hi := h.idx p hp'
      obtain ⟨l1, l2⟩ := h.live p hp' hne
      refine ⟨by rw [List.getElem?_append_left (by rw [sidsOf_length]; exact hi)]; exact l1, ?_⟩
      rw [List.drop_append_of_le_length (by rw [sidsOf_length]; omega)]
      simp only [List.mem_append, List.mem_singleton, not_or]
      refine ⟨l2, ?_⟩
      rcases hk with ⟨_, hs⟩ | ⟨_, hs, _⟩
      · rw [hs]; intro e; cases e
      · rw [hs]; intro e; exact hpk (Option.some.inj e)
  · intro k hk'
    rw [sidsOf_append, List.mem_append, List.mem_singleton] at hk'
    rcases hk' with h' | h'
    · exact hm.below k h'
    · rcases hk with ⟨_, hs⟩ | ⟨hne, hs, hb⟩
      · rw [hs] at h'; cases h'
      · rw [hs] at h'; cases h'; exact ⟨hne, hb⟩

/-- the record of a one-time event is appended: it carries no reference and the session map is not touched -/
theorem CrInv.appendEvt {n m : Nat} {cdr rs} (h : CrInv n cdr rs) (hnm : n ≤ m) (rec : Record) (hs : rec.sid = none) :
    CrInv m cdr (rs ++ [rec]) := by
  have hm := h.mono hnm
  refine ⟨h.nodup, ?_, ?_, ?_, ?_⟩
  · intro p hp
    have := h.idx p hp; simp; omega
  · intro p hp hnil
    rw [sidsOf_append]
    have hi := h.idx p hp
    rw [List.getElem?_append_left (by rw [sidsOf_length]; exact hi)]
    exact h.evt p hp hnil
  · intro p hp hne
    rw [sidsOf_append]
    have hi := h.idx p hp
    obtain ⟨l1, l2⟩ := h.live p hp hne
    refine ⟨by rw [List.getElem?_append_left (by rw [sidsOf_length]; exact hi)]; exact l1, ?_⟩
    rw [List.drop_append_of_le_length (by rw [sidsOf_length]; omega)]
    simp only [List.mem_append, List.mem_singleton, not_or]
    exact ⟨l2, by rw [hs]; intro e; cases e⟩
  · intro k hk'
    rw [sidsOf_append, List.mem_append, List.mem_singleton] at hk'
    rcases hk' with h' | h'
    · exact hm.below k h'
    · rw [hs] at h'; cases h'

/-- a record is replaced by one with the same reference -/
theorem CrInv.set {n : Nat} {cdr rs} (h : CrInv n cdr rs) (i : Nat) (r' : Record)
    (hs : ∀ r, rs[i]? = some r → r'.sid = r.sid) : CrInv n cdr (rs.set i r') := by
  have e := sidsOf_set rs i r' hs
  exact ⟨h.nodup, by intro p hp; rw [List.length_set]; exact h.idx p hp, by rw [e]; exact h.evt, by rw [e]; exact h.live,
    by rw [e]; exact h.below⟩

theorem CrInv.remove {n : Nat} {cdr rs} (h : CrInv n cdr rs) (k : Bytes) : CrInv n (removeSid cdr k) rs :=
  ⟨nodup_removeSid k h.nodup, fun p hp => h.idx p (mem_removeSid hp), fun p hp => h.evt p (mem_removeSid hp),
    fun p hp => h.live p (mem_removeSid hp), h.below⟩

theorem CrInv.empty (n : Nat) : CrInv n [] [] :=
  { nodup := by simp
    idx := by intro p hp; cases hp
    evt := by intro p hp; cases hp
    live := by intro p hp; cases hp
    below := by intro k hk; simp [sidsOf] at hk }

/-! ### one subscriber context: usage appended to the designated record, or to a record started for the session -/

theorem sid_at {rs : List Record} {i : Nat} {o : Option Bytes} (h : (sidsOf rs)[i]? = some o) :
    i < rs.length ∧ (rs.getD i default).sid = o ∧ ∀ r, rs[i]? = some r → r.sid = o := by
  simp only [sidsOf, List.getElem?_map] at h
  cases hr : rs[i]? with
  | none => simp [hr] at h
  | some r =>
    simp only [hr, Option.map_some, Option.some.injEq] at h
    have hi : i < rs.length := by
      cases Nat.lt_or_ge i rs.length with
      | inl h' => exact h'
      | inr h' => rw [List.getElem?_eq_none h'] at hr; cases hr
    refine ⟨hi, ?_, ?_⟩
    · rw [List.getD_eq_getElem?_getD, hr]; exact h
    · intro r' hr'; cases hr'; exact h

/-- the reference the session map holds for `k` at `idx`: none for the event key, `some k` otherwise -/
theorem CrInv.at {n cdr rs} (h : CrInv n cdr rs) {k : Bytes} {idx : Nat} (hm : (k, idx) ∈ cdr) :
    (sidsOf rs)[idx]? = some (if k = [] then none else some k) := by
  by_cases hk : k = []
  · simp only [hk, if_true]; exact h.evt (k, idx) hm hk
  · simp only [hk, if_false]; exact (h.live (k, idx) hm hk).1

theorem ue_append_usage {n cdr rs} (h : CrInv n cdr rs) {k : Bytes} {idx : Nat} (hm : (k, idx) ∈ cdr) (r' : Record)
    (x : List RecUsage) (hs : r'.sid = (rs.getD idx default).sid) (hu : r'.usage = (rs.getD idx default).usage ++ x)
    (sid : Bytes) (hsid : sid ≠ []) :
    CrInv n cdr (rs.set idx r') ∧
    sessUsageRecs (rs.set idx r') sid = sessUsageRecs rs sid ++ (if k = sid then x else []) := by
  obtain ⟨hi, hcur, hall⟩ := sid_at (h.at hm)
  have hget : ∀ r, rs[idx]? = some r → r = rs.getD idx default := by
    intro r hr; rw [List.getD_eq_getElem?_getD, hr]; rfl
  refine ⟨h.set idx r' (fun r hr => by rw [hs, hcur, hall r hr]), ?_⟩
  by_cases hk : k = sid
  · subst hk
    simp only [if_true]
    have hl := (h.live (k, idx) hm hsid).2
    apply sess_set_last rs idx r' k x _ hi hl
    intro r hr
    have e := hget r hr
    refine ⟨by rw [hs, hcur]; simp [hsid], by rw [hall r hr]; simp [hsid], by rw [hu, e]⟩
  · simp only [hk, if_false, List.append_nil]
    apply sess_set_other
    intro r hr
    refine ⟨by rw [hs, hcur, hall r hr], ?_⟩
    rw [hall r hr]
    by_cases hkn : k = []
    · simp [hkn]
    · simp only [hkn, if_false]; intro e; exact hk (Option.some.inj e)

theorem ue_split_usage {n cdr rs} (h : CrInv n cdr rs) {k : Bytes} {idx : Nat} (hm : (k, idx) ∈ cdr) (r' : Record)
    (x : List RecUsage) (hs : r'.sid = (rs.getD idx default).sid) (hu : r'.usage = x) (sid : Bytes) (hsid : sid ≠ []) :
    CrInv n (setSid cdr k rs.length) (rs ++ [r']) ∧
    sessUsageRecs (rs ++ [r']) sid = sessUsageRecs rs sid ++ (if k = sid then x else []) := by
  obtain ⟨hi, hcur, hall⟩ := sid_at (h.at hm)
  have hsid' : r'.sid = if k = [] then none else some k := by rw [hs, hcur]
  constructor
  · apply h.append (Nat.le_refl _) k r'
    by_cases hk : k = []
    · left; exact ⟨hk, by rw [hsid']; simp [hk]⟩
    · right
      refine ⟨hk, by rw [hsid']; simp [hk], ?_⟩
      have hmem : some k ∈ sidsOf rs := by
        have := (h.live (k, idx) hm hk).1
        exact List.mem_of_getElem? this
      exact (h.below k hmem).2
  · rw [sess_append, hsid', hu]
    by_cases hk : k = sid
    · subst hk; simp [hsid]
    · by_cases hkn : k = []
      · subst hkn
        have : ¬ (([] : Bytes) = sid) := fun e => hsid e.symm
        simp [this]
      · have : ¬ (some k = some sid) := fun e => hk (Option.some.inj e)
        simp [hkn, hk, this]

theorem set_append_last (rs : List Record) (a b : Record) : (rs ++ [a]).set rs.length b = rs ++ [b] := by
  induction rs with
  | nil => rfl
  | cons x t ih => simp [ih]

theorem getD_append_last (rs : List Record) (a : Record) : (rs ++ [a]).getD rs.length default = a := by
  simp [List.getD_eq_getElem?_getD]

/-! ### the state -/

/-- usage recorded for session `sid` of subscriber `supi`: the records carrying the reference, in order -/
def sessUsage (s : State) (supi sid : Bytes) : List RecUsage :=
  match findUe s.ues supi with
  | some u => sessUsageRecs u.records sid
  | none => []

/-- what an operation contributes to session `sid` of `supi`: the usage of an accepted create that returned `sid`,
    of an accepted update or release addressed to `sid` -/
def contribSess (guard : SplitGuard) (s : State) (op : Op) (supi sid : Bytes) : List RecUsage :=
  match op with
  | .create r => if (create s r).2.status = 201 ∧ r.supi = supi ∧ (create s r).2.loc = some sid then toRecUsage r.usages else []
  | .update k r => if (update guard s k r).2.status = 200 ∧ r.supi = supi ∧ k = sid then toRecUsage r.usages else []
  | .release k r => if (release s k r).2.status = 204 ∧ r.supi = supi ∧ k = sid then toRecUsage r.usages else []
  | _ => []

theorem sessUsage_put {s s' : State} {ue' : Ue} (h : s'.ues = putUe s.ues ue') (supi sid : Bytes) :
    sessUsage s' supi sid = if supi = ue'.supi then sessUsageRecs ue'.records sid else sessUsage s supi sid := by
  unfold sessUsage
  rw [h]
  by_cases e : supi = ue'.supi
  · subst e; simp [findUe_putUe_same]
  · simp [e, findUe_putUe_other _ _ _ e]

theorem sessInv_put {s s' : State} {ue' : Ue} (hinv : SessInv s) (hn : s.sessionSeq ≤ s'.sessionSeq)
    (hu : CrInv s'.sessionSeq ue'.cdr ue'.records) (h : s'.ues = putUe s.ues ue') : SessInv s' := by
  intro u hmem
  rw [h] at hmem
  rcases mem_putUe hmem with rfl | h'
  · exact hu
  · exact (hinv u h').mono hn

theorem sessUsage_of_find {s : State} {supi : Bytes} {ue : Ue} (h : findUe s.ues supi = some ue) (sid : Bytes) :
    sessUsage s supi sid = sessUsageRecs ue.records sid := by
  unfold sessUsage; rw [h]

theorem create_acc (s : State) (r : Req) (nf : Bytes) (hnf : r.nf = some nf) (hp : supiAccepted r.supi = true)
    (hb : r.bad = false) :
    ∃ (ue' : Ue) (rec1 : Record) (key : Bytes),
      (create s r).2.status = 201 ∧ (create s r).2.loc = some key ∧ (create s r).1.ues = putUe s.ues ue' ∧
      ue'.supi = (ueOr s r).supi ∧ ue'.records = (ueOr s r).records ++ [rec1] ∧ rec1.usage = toRecUsage r.usages ∧
      ((key = [] ∧ rec1.sid = none ∧ (create s r).1.sessionSeq = s.sessionSeq ∧ ue'.cdr = (ueOr s r).cdr) ∨
       (key = sessionId r.supi nf s.sessionSeq ∧ rec1.sid = some key ∧ (create s r).1.sessionSeq = s.sessionSeq + 1 ∧
        ue'.cdr = setSid (ueOr s r).cdr key (ueOr s r).records.length)) := by
  unfold create ueOr
  simp only [hnf, hp, hb, not_true_eq_false, if_false, Bool.false_eq_true]
  by_cases h1 : r.one = true
  · simp only [h1, if_true]
    exact ⟨_, _, _, trivial, rfl, rfl, rfl, rfl, by simp [appendUsage], Or.inl ⟨rfl, rfl, trivial, rfl⟩⟩
  · simp only [h1, Bool.false_eq_true, if_false]
    refine ⟨_, _, _, trivial, rfl, rfl, rfl, rfl, by simp [appendUsage], Or.inr ⟨rfl, ?_, trivial, rfl⟩⟩
    simp [appendUsage, sessionId_ne_nil]

theorem update_rej (guard : SplitGuard) (s : State) (k : Bytes) (r : Req)
    (h : findUe s.ues r.supi = none ∨ ∃ ue, findUe s.ues r.supi = some ue ∧ lookupSid ue.cdr k = none) :
    (update guard s k r).1 = s ∧ (update guard s k r).2.status ≠ 200 := by
  rcases h with h | ⟨ue, hu, hl⟩
  · simp [update, h]
  · simp [update, hu, hl]

theorem release_rej (s : State) (k : Bytes) (r : Req)
    (h : findUe s.ues r.supi = none ∨ ∃ ue, findUe s.ues r.supi = some ue ∧ lookupSid ue.cdr k = none) :
    (release s k r).1 = s ∧ (release s k r).2.status ≠ 204 := by
  rcases h with h | ⟨ue, hu, hl⟩
  · simp [release, h]
  · simp [release, hu, hl]

/-- an accepted update: the usage goes to the designated record, or to a record started for the session -/
theorem update_acc (guard : SplitGuard) (s : State) (k : Bytes) (r : Req) (ue : Ue) (idx : Nat)
    (hu : findUe s.ues r.supi = some ue) (hl : lookupSid ue.cdr k = some idx) :
    ∃ (ue' : Ue) (rec' : Record), (update guard s k r).2.status = 200 ∧ (update guard s k r).1.ues = putUe s.ues ue' ∧
      (update guard s k r).1.sessionSeq = s.sessionSeq ∧ ue'.supi = ue.supi ∧
      rec'.sid = (ue.records.getD idx default).sid ∧
      ((ue'.cdr = ue.cdr ∧ ue'.records = ue.records.set idx rec' ∧
          rec'.usage = (ue.records.getD idx default).usage ++ toRecUsage r.usages) ∨
       (ue'.cdr = setSid ue.cdr k ue.records.length ∧ ue'.records = ue.records ++ [rec'] ∧
          rec'.usage = toRecUsage r.usages)) := by
  simp only [update, hu, hl]
  by_cases hg : guard (ue.records.getD idx default) r.usages = true
  · simp only [hg, if_true, setRecord, getD_append_last, set_append_last]
    refine ⟨_, (if partialOf r.trigs r.usages false = true then
        { appendUsage { ue.records.getD idx default with usage := [] } r.usages with cause := 1, rsn := some 1 }
       else appendUsage { ue.records.getD idx default with usage := [] } r.usages), trivial, rfl, trivial, rfl, ?_, Or.inr ⟨rfl, rfl, ?_⟩⟩
    · split <;> rfl
    · split <;> simp [appendUsage]
  · simp only [hg, Bool.false_eq_true, if_false, setRecord]
    refine ⟨_, (if partialOf r.trigs r.usages false = true then
        { appendUsage (ue.records.getD idx default) r.usages with cause := 1, rsn := some 1 }
       else appendUsage (ue.records.getD idx default) r.usages), trivial, rfl, trivial, rfl, ?_, Or.inl ⟨rfl, rfl, ?_⟩⟩
    · split <;> rfl
    · split <;> rfl

theorem release_acc (s : State) (k : Bytes) (r : Req) (ue : Ue) (idx : Nat)
    (hu : findUe s.ues r.supi = some ue) (hl : lookupSid ue.cdr k = some idx) :
    ∃ (ue' : Ue) (rec' : Record), (release s k r).2.status = 204 ∧ (release s k r).1.ues = putUe s.ues ue' ∧
      (release s k r).1.sessionSeq = s.sessionSeq ∧ ue'.supi = ue.supi ∧
      rec'.sid = (ue.records.getD idx default).sid ∧ ue'.cdr = removeSid ue.cdr k ∧
      ue'.records = ue.records.set idx rec' ∧ rec'.usage = (ue.records.getD idx default).usage ++ toRecUsage r.usages := by
  simp only [release, hu, hl]
  exact ⟨_, { appendUsage (ue.records.getD idx default) r.usages with cause := 0 }, trivial, rfl, trivial, rfl, rfl, rfl, rfl, rfl⟩

/-- One operation: the usage recorded for session `sid` grows by exactly what the operation contributes to that
    session, appended at the end; the invariant is kept. -/
theorem sess_step (guard : SplitGuard) (s : State) (op : Op) (supi sid : Bytes) (hsid : sid ≠ []) (hinv : SessInv s) :
    sessUsage (step guard s op).1 supi sid = sessUsage s supi sid ++ contribSess guard s op supi sid ∧
    SessInv (step guard s op).1 := by
  cases op with
  | create r =>
    simp only [step, contribSess]
    by_cases hacc : ∃ nf, r.nf = some nf ∧ supiAccepted r.supi = true
    · obtain ⟨nf, hnf, hp⟩ := hacc
      by_cases hb : r.bad = true
      · -- refused by OpenCDR: the context is stored (records and session map as they were), a number may be used up
        have hbad := create_bad s r nf hnf hp hb
        have hcr0 : CrInv s.sessionSeq (ueOr s r).cdr (ueOr s r).records := by
          unfold ueOr; cases hf : findUe s.ues r.supi with
          | none => exact CrInv.empty _
          | some u => exact hinv u (mem_of_findUe hf)
        have hprev0 : sessUsage s r.supi sid = sessUsageRecs (ueOr s r).records sid := by
          unfold sessUsage ueOr; cases hf : findUe s.ues r.supi with
          | none => simp [sessUsageRecs]
          | some u => rfl
        rw [hbad]
        have hn0 : s.sessionSeq ≤ (if r.one = true then s.sessionSeq else s.sessionSeq + 1) := by split <;> omega
        refine ⟨?_, sessInv_put (ue' := ueOr s r) hinv hn0 (hcr0.mono hn0) rfl⟩
        rw [sessUsage_put (ue' := ueOr s r) rfl]
        simp only [ueOr_supi]
        by_cases e : supi = r.supi
        · subst e; simp [hprev0]
        · simp [e]
      have hb' : r.bad = false := by cases h : r.bad <;> simp_all
      obtain ⟨ue', rec1, key, hst, hloc, hues, hsup', hrecs, hru, hkey⟩ := create_acc s r nf hnf hp hb'
      have hsupi : (ueOr s r).supi = r.supi := by
        unfold ueOr; cases hf : findUe s.ues r.supi with
        | none => rfl
        | some u => simp only; exact findUe_supi hf
      have hcr : CrInv s.sessionSeq (ueOr s r).cdr (ueOr s r).records := by
        unfold ueOr; cases hf : findUe s.ues r.supi with
        | none => exact CrInv.empty _
        | some u => exact hinv u (mem_of_findUe hf)
      have hprev : sessUsage s r.supi sid = sessUsageRecs (ueOr s r).records sid := by
        unfold sessUsage ueOr; cases hf : findUe s.ues r.supi with
        | none => simp [sessUsageRecs]
        | some u => rfl
      have hn : s.sessionSeq ≤ (create s r).1.sessionSeq := by
        rcases hkey with ⟨_, _, e, _⟩ | ⟨_, _, e, _⟩ <;> omega
      have hcr' : CrInv (create s r).1.sessionSeq ue'.cdr ue'.records := by
        rw [hrecs]
        rcases hkey with ⟨_, hs0, _, hcdr⟩ | ⟨k1, hs1, e, hcdr⟩
        · -- a one-time event: a record without reference is appended, the session map stays
          rw [hcdr]; exact hcr.appendEvt hn rec1 hs0
        · rw [hcdr]
          apply hcr.append hn
          refine Or.inr ⟨by rw [k1]; exact sessionId_ne_nil _ _ _, hs1, ⟨r.supi, nf, s.sessionSeq, k1, by omega⟩⟩
      refine ⟨?_, sessInv_put hinv hn hcr' hues⟩
      rw [sessUsage_put hues, hsup', hsupi]
      by_cases e : supi = r.supi
      · subst e
        simp only [if_true, hrecs, sess_append, hprev, hst, hloc, true_and, hru]
        by_cases hk : key = sid
        · subst hk
          rcases hkey with ⟨k0, _, _, _⟩ | ⟨_, hs1, _, _⟩
          · exact absurd k0 hsid
          · simp [hs1]
        · have hne : ¬ (some key = some sid) := fun x => hk (Option.some.inj x)
          rcases hkey with ⟨_, hs0, _, _⟩ | ⟨_, hs1, _, _⟩
          · simp [hs0, hne]
          · simp [hs1, hne]
      · have e' : ¬ (r.supi = supi) := fun x => e x.symm
        simp [e, e']
    · have hrej : create s r = (s, { status := 400 }) := by
        apply create_rej
        cases hnf : r.nf with
        | none => left; rfl
        | some nf =>
          right
          cases hp : supiAccepted r.supi with
          | false => rfl
          | true => exact absurd ⟨nf, hnf, hp⟩ hacc
      simp [hrej, hinv]
  | update k r =>
    simp only [step, contribSess]
    by_cases hacc : ∃ ue idx, findUe s.ues r.supi = some ue ∧ lookupSid ue.cdr k = some idx
    · obtain ⟨ue, idx, hu, hl⟩ := hacc
      obtain ⟨ue', rec', hst, hues, hseq, hsup', hsid', hshape⟩ := update_acc guard s k r ue idx hu hl
      have hcr := hinv ue (mem_of_findUe hu)
      have hm := mem_of_lookup hl
      have hsupi := findUe_supi hu
      have key : CrInv s.sessionSeq ue'.cdr ue'.records ∧
          sessUsageRecs ue'.records sid = sessUsageRecs ue.records sid ++ (if k = sid then toRecUsage r.usages else []) := by
        rcases hshape with ⟨e1, e2, e3⟩ | ⟨e1, e2, e3⟩
        · rw [e1, e2]; exact ue_append_usage hcr hm rec' _ hsid' e3 sid hsid
        · rw [e1, e2]; exact ue_split_usage hcr hm rec' _ hsid' e3 sid hsid
      refine ⟨?_, sessInv_put hinv (by omega) (by rw [hseq]; exact key.1) hues⟩
      rw [sessUsage_put hues, hsup', hsupi]
      by_cases e : supi = r.supi
      · subst e
        simp only [if_true, key.2, sessUsage_of_find hu, hst, true_and]
      · have e' : ¬ (r.supi = supi) := fun x => e x.symm
        simp [e, e']
    · have hrej := update_rej guard s k r (by
        cases hu : findUe s.ues r.supi with
        | none => exact Or.inl rfl
        | some ue =>
          right
          refine ⟨ue, rfl, ?_⟩
          cases hl : lookupSid ue.cdr k with
          | none => rfl
          | some idx => exact absurd ⟨ue, idx, hu, hl⟩ hacc)
      rw [hrej.1]
      simp [hrej.2, hinv]
  | release k r =>
    simp only [step, contribSess]
    by_cases hacc : ∃ ue idx, findUe s.ues r.supi = some ue ∧ lookupSid ue.cdr k = some idx
    · obtain ⟨ue, idx, hu, hl⟩ := hacc
      obtain ⟨ue', rec', hst, hues, hseq, hsup', hsid', hcdr, hrecs, husage⟩ := release_acc s k r ue idx hu hl
      have hcr := hinv ue (mem_of_findUe hu)
      have hm := mem_of_lookup hl
      have hsupi := findUe_supi hu
      obtain ⟨c1, c2⟩ := ue_append_usage hcr hm rec' _ hsid' husage sid hsid
      refine ⟨?_, sessInv_put hinv (by omega) (by rw [hseq, hcdr, hrecs]; exact c1.remove k) hues⟩
      rw [sessUsage_put hues, hsup', hsupi]
      by_cases e : supi = r.supi
      · subst e
        simp only [if_true, hrecs, c2, sessUsage_of_find hu, hst, true_and]
      · have e' : ¬ (r.supi = supi) := fun x => e x.symm
        simp [e, e']
    · have hrej := release_rej s k r (by
        cases hu : findUe s.ues r.supi with
        | none => exact Or.inl rfl
        | some ue =>
          right
          refine ⟨ue, rfl, ?_⟩
          cases hl : lookupSid ue.cdr k with
          | none => rfl
          | some idx => exact absurd ⟨ue, idx, hu, hl⟩ hacc)
      rw [hrej.1]
      simp [hrej.2, hinv]
  | recharge info =>
    simp only [step, contribSess, List.append_nil]
    have hshape : (recharge s info).1 = s ∨ ∃ ue ue' : Ue, findUe s.ues ue.supi = some ue ∧ (recharge s info).1.ues = putUe s.ues ue' ∧
        (recharge s info).1.sessionSeq = s.sessionSeq ∧ ue'.supi = ue.supi ∧ ue'.cdr = ue.cdr ∧ ue'.records = ue.records := by
      unfold recharge
      split
      · split
        · left; rfl
        · split
          · left; rfl
          · rename_i ue hu
            right
            have hsupi := findUe_supi hu
            exact ⟨ue, _, by rw [hsupi]; exact hu, rfl, rfl, rfl, rfl, rfl⟩
      · left; rfl
    rcases hshape with h | ⟨ue, ue', hu, hues, hseq, hsup', hc, hr⟩
    · rw [h]; exact ⟨rfl, hinv⟩
    · have hcr := hinv ue (mem_of_findUe hu)
      refine ⟨?_, sessInv_put hinv (by omega) (by rw [hseq, hc, hr]; exact hcr) hues⟩
      rw [sessUsage_put hues, hsup']
      by_cases e : supi = ue.supi
      · simp only [e, if_true, hr]; exact (sessUsage_of_find hu sid).symm
      · simp [e]
  | credit a b c =>
    simp only [step, contribSess, List.append_nil]
    have : (creditAcct s a b c).ues = s.ues ∧ (creditAcct s a b c).sessionSeq = s.sessionSeq := by
      unfold creditAcct; split
      · split <;> exact ⟨rfl, rfl⟩
      · exact ⟨rfl, rfl⟩
    refine ⟨by unfold sessUsage; rw [this.1], ?_⟩
    intro u hu'
    rw [this.1] at hu'
    rw [this.2]
    exact hinv u hu'

end Chf.Charging

namespace Chf.Charging
open Chf

/-- what a history contributes to session `sid` of `supi`, in history order -/
def contribSessRun (guard : SplitGuard) (supi sid : Bytes) : State → List Op → List RecUsage
  | _, [] => []
  | s, op :: r => contribSess guard s op supi sid ++ contribSessRun guard supi sid (step guard s op).1 r

theorem sess_run (guard : SplitGuard) (supi sid : Bytes) (hsid : sid ≠ []) (ops : List Op) :
    ∀ s : State, SessInv s →
      sessUsage (run guard s ops) supi sid = sessUsage s supi sid ++ contribSessRun guard supi sid s ops ∧
      SessInv (run guard s ops) := by
  induction ops with
  | nil => intro s h; simp [run, contribSessRun, h]
  | cons op r ih =>
    intro s h
    obtain ⟨h1, h2⟩ := sess_step guard s op supi sid hsid h
    obtain ⟨h3, h4⟩ := ih _ h2
    simp only [run, contribSessRun]
    exact ⟨by rw [h3, h1, List.append_assoc], h4⟩

theorem sessInv_init (accts : Abmf.Store) (tariffs : List Rating.Tariff) :
    SessInv { accts := accts, tariffs := tariffs } := by
  intro u hu; cases hu

end Chf.Charging
