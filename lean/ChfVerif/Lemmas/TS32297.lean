import ChfVerif.Lemmas.CdrFile
import ChfVerif.Spec.TS32297
/- the independent reader recovers what the encoder model wrote (helper lemmas for C15) -/
namespace Chf.TS32297
open Chf Chf.CdrFile

theorem u32_be32 {x : Nat} (h : x < 4294967296) (r : Bytes) : u32 (be32 x ++ r) = some (x, r) := by
  simp only [be32, List.cons_append, List.nil_append, u32, Option.some.injEq, Prod.mk.injEq, and_true]
  omega

theorem u16_be16 {x : Nat} (h : x < 65536) (r : Bytes) : u16 (be16 x ++ r) = some (x, r) := by
  simp only [be16, List.cons_append, List.nil_append, u16, Option.some.injEq, Prod.mk.injEq, and_true]
  omega

theorem u8_cons (x : Nat) (r : Bytes) : u8 (x :: r) = some (x, r) := rfl

theorem octets_append {n : Nat} {a : Bytes} (h : a.length = n) (r : Bytes) :
    octets n (a ++ r) = some (a, r) := by
  subst h
  unfold octets
  simp

theorem timeStamp_packTs {t : TimeStamp} (h : t.WF) : timeStamp (packTs t) = t := by
  rw [packTs_eq h]
  obtain ⟨h1, h2, h3, h4, h5, h6, h7⟩ := h
  unfold timeStamp field
  cases t
  simp only [TimeStamp.mk.injEq] at *
  refine ⟨?_, ?_, ?_, ?_, ?_, ?_, ?_⟩ <;> omega

theorem packTs_lt {t : TimeStamp} (h : t.WF) : packTs t < 4294967296 := by
  rw [packTs_eq h]; obtain ⟨h1, h2, h3, h4, h5, h6, h7⟩ := h; omega

theorem header_encode {h : FileHeader} (hw : h.WF) (rest : Bytes) :
    header (encodeHeader h ++ rest) = some (h, rest) := by
  have hw' := hw
  obtain ⟨w1, w2, w3, w4, w5, w6, w7, w8, w9, w10, w11, w12, w13, w14, w15, w16, w17, w18, w19, w20,
    w21, w22, w23, w24⟩ := hw
  unfold header encodeHeader fixedPart extPart
  simp only [List.append_assoc, List.cons_append, List.nil_append]
  simp only [u32_be32 w1, u32_be32 w2, u8_cons, u32_be32 (packTs_lt w7), u32_be32 (packTs_lt w8),
    u32_be32 w9, u32_be32 w10, octets_append w12, u16_be16 w15, octets_append w16, u16_be16 w18,
    octets_append w19, packId_eq w3 w4, packId_eq w5 w6, timeStamp_packTs w7, timeStamp_packTs w8]
  have e1 : field (h.highRel * 32 + h.highVer) 5 3 = h.highRel := by unfold field; omega
  have e2 : field (h.highRel * 32 + h.highVer) 0 5 = h.highVer := by unfold field; omega
  have e3 : field (h.lowRel * 32 + h.lowVer) 5 3 = h.lowRel := by unfold field; omega
  have e4 : field (h.lowRel * 32 + h.lowVer) 0 5 = h.lowVer := by unfold field; omega
  simp only [e1, e2, e3, e4]
  by_cases hH : h.highRel = 7 <;> by_cases hL : h.lowRel = 7
  · simp [hH, hL, u8_cons]; cases h; simp_all
  · have := w24 hL; simp [hH, hL, u8_cons]; cases h; simp_all
  · have := w23 hH; simp [hH, hL, u8_cons]; cases h; simp_all
  · have := w23 hH; have := w24 hL; simp [hH, hL]; cases h; simp_all

theorem record_encode {c : Cdr} (hw : c.WF) (rest : Bytes) :
    record (encodeCdr c ++ rest) = some (c, rest) := by
  obtain ⟨⟨g1, g2, g3, g4, g5, g6, g7⟩, hlen, _⟩ := hw
  unfold record encodeCdr encodeCdrHeader
  simp only [List.append_assoc, List.cons_append, List.nil_append]
  simp only [u16_be16 g1, u8_cons, packId_eq g2 g3, packId_eq g4 g5]
  have e1 : field (c.hdr.rel * 32 + c.hdr.ver) 5 3 = c.hdr.rel := by unfold field; omega
  have e2 : field (c.hdr.rel * 32 + c.hdr.ver) 0 5 = c.hdr.ver := by unfold field; omega
  have e3 : field (c.hdr.fmt * 32 + c.hdr.ts) 5 3 = c.hdr.fmt := by unfold field; omega
  have e4 : field (c.hdr.fmt * 32 + c.hdr.ts) 0 5 = c.hdr.ts := by unfold field; omega
  simp only [e1, e2, e3, e4]
  by_cases h7 : c.hdr.rel = 7
  · simp [h7, u8_cons, octets_append hlen]
    cases c with | mk hd bs => cases hd; simp_all
  · have := g7 h7
    simp [h7, octets_append hlen]
    cases c with | mk hd bs => cases hd; simp_all

theorem records_encode (cs : List Cdr) (hw : ∀ c ∈ cs, c.WF) (rest : Bytes) :
    records cs.length (encodeCdrs cs ++ rest) = some (cs, rest) := by
  induction cs with
  | nil => simp [records, encodeCdrs]
  | cons c r ih =>
    have hc : c.WF := hw c (by simp)
    have hr : ∀ c ∈ r, c.WF := fun x hx => hw x (by simp [hx])
    simp only [List.length_cons, records, encodeCdrs, List.append_assoc]
    rw [record_encode hc]
    simp only []
    rw [ih hr]

theorem read_encodeFile (f : File) (hw : f.WF) : read (encodeFile f) = some f := by
  obtain ⟨hh, hn, hc⟩ := hw
  unfold read encodeFile
  rw [header_encode hh]
  simp only []
  rw [hn]
  have := records_encode f.cdrs hc []
  simp only [List.append_nil] at this
  rw [this]

end Chf.TS32297

namespace Chf.CdrFile
open Chf

def extCount (rel : Nat) : Nat := if rel = 7 then 1 else 0

theorem encodeHeader_length (h : FileHeader) (hip : h.ip.length = 20) :
    (encodeHeader h).length = 52 + h.filter.length + h.ext.length + extCount h.highRel + extCount h.lowRel := by
  unfold encodeHeader extPart extCount
  simp only [List.length_append, fixedPart_length hip, be16, List.length_cons, List.length_nil]
  split <;> split <;> simp <;> omega

def cdrsLength : List Cdr → Nat
  | [] => 0
  | c :: r => 4 + extCount c.hdr.rel + c.bytes.length + cdrsLength r

theorem encodeCdrs_length (cs : List Cdr) : (encodeCdrs cs).length = cdrsLength cs := by
  induction cs with
  | nil => rfl
  | cons c r ih =>
    simp only [encodeCdrs, cdrsLength, List.length_append, ih, encodeCdr, encodeCdrHeader, be16, extCount,
      List.length_cons, List.length_nil]
    split <;> simp <;> omega

end Chf.CdrFile
