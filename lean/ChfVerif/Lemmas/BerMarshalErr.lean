import ChfVerif.Lemmas.BerMarshalSafe
import ChfVerif.Spec.X690
/-
  When does the encoder return an error?  Two answers, both for every type, parameter set and value:

  * position independence (`marshalElems_isErr`, `marshalFields_err_of_member`, `marshalFields_err_of_rest`): a SEQUENCE OF is
    an error exactly when SOME element is an error — the first, a middle or the last one alike —, and a SEQUENCE / SET is
    an error as soon as one present member is;
  * exactness (`marshal_isOk_iff_encode`): the encoder answers with octets exactly when the independent X.690 encoder has
    an encoding for the value (no un-encodable value is "encoded", no encodable value is refused).
-/
namespace Chf.Ber
open Chf Chf.X690

def Vals.any (f : Val → Bool) : Vals → Bool
  | .nil => false
  | .cons v r => f v || Vals.any f r

def Vals.length : Vals → Nat
  | .nil => 0
  | .cons _ r => r.length + 1

/-- elements of a SEQUENCE OF: no panic, and an error exactly when some element is an error, wherever it stands -/
theorem marshalElems_isErr (t : Ty) (p : Params) (hnp : ∀ v, marshal t p v ≠ .panic) :
    ∀ vs, marshalElems t p vs ≠ .panic ∧
      (marshalElems t p vs).isErr = vs.any (fun v => (marshal t p v).isErr)
  | .nil => by rw [marshalElems]; simp [Res.isErr, Vals.any]
  | .cons v vs => by
    have ih := marshalElems_isErr t p hnp vs
    have h0 := hnp v
    rw [marshalElems]
    cases h1 : marshal t p v <;> cases h2 : marshalElems t p vs <;> simp_all [Res.isErr, Vals.any]

theorem encodeAlt_none_of_ge : ∀ (fs : Fields) (vs : Vals) (n : Nat), fs.length ≤ n → encodeAlt fs vs n = none
  | .nil, _, _, _ => by rw [encodeAlt]; all_goals simp
  | .cons _ _ _, .nil, _, _ => by rw [encodeAlt]; all_goals simp
  | .cons _ _ _, .cons _ _, 0, h => by simp [Fields.length] at h
  | .cons _ _ r, .cons _ vs, n + 1, h => by
    rw [encodeAlt]; exact encodeAlt_none_of_ge r vs n (by simp [Fields.length] at h; omega)


theorem marshalAlt_err_of_ge : ∀ (fs : Fields) (vs : Vals) (n : Nat), fs.length ≤ n → marshalAlt fs vs n = .err
  | .nil, _, _, _ => by rw [marshalAlt]; all_goals simp
  | .cons _ _ _, .nil, _, _ => by rw [marshalAlt]; all_goals simp
  | .cons _ _ _, .cons _ _, 0, h => by simp [Fields.length] at h
  | .cons _ _ r, .cons _ vs, n + 1, h => by
    rw [marshalAlt]; exact marshalAlt_err_of_ge r vs n (by simp [Fields.length] at h; omega)

set_option maxHeartbeats 4000000 in
/-- the encoder answers with octets exactly when the reference encoder has an encoding -/
theorem marshal_isOk_eq_encode_isSome :
    (∀ t p v, optNilable t = true → (marshal t p v).isOk = (encode t p v).isSome) ∧
    (∀ t p vs, optNilable t = true → (marshalElems t p vs).isOk = (encodeList t p vs).isSome) ∧
    (∀ fs vs, optNilableFs fs = true → (marshalFields fs vs).isOk = (encodeMembers fs vs).isSome) ∧
    (∀ fs vs n, optNilableFs fs = true → (marshalAlt fs vs n).isOk = (encodeAlt fs vs n).isSome) := by
  have key := marshal.mutual_induct
    (motive1 := fun t p v => optNilable t = true → (marshal t p v).isOk = (encode t p v).isSome)
    (motive2 := fun t p vs => optNilable t = true → (marshalElems t p vs).isOk = (encodeList t p vs).isSome)
    (motive3 := fun fs vs => optNilableFs fs = true → (marshalFields fs vs).isOk = (encodeMembers fs vs).isSome)
    (motive4 := fun fs vs n => optNilableFs fs = true → (marshalAlt fs vs n).isOk = (encodeAlt fs vs n).isSome)
  apply key <;> clear key
  all_goals (intros; first
    | (simp_all [marshal, marshalElems, marshalFields, marshalAlt, encode, encodeList, encodeMembers, encodeAlt, Res.isOk, optNilable, optNilableFs]; done)
    | skip)
  case case14 =>
    rename_i alts p present vs h1 h2 hx
    have e := encodeAlt_none_of_ge alts vs (present.toNat - 1) (by omega)
    rw [marshal, encode]
    simp [h1, h2, e, Res.isOk]
  case case16 =>
    rename_i alts p present vs h1 h2 h3 htn ih hx
    have ih' := ih (by simpa [optNilable] using hx)
    rw [marshal, encode]
    simp only [h1, h2, h3, htn, if_false]
    cases he : encodeAlt alts vs (present.toNat - 1) <;> simp_all [Res.isOk]
  case case17 =>
    rename_i alts p present vs h1 h2 h3 n htn inner hin ih hx
    have ih' := ih (by simpa [optNilable] using hx)
    rw [hin] at ih'
    rw [marshal, encode]
    simp only [h1, h2, h3, htn, hin, if_false]
    cases he : encodeAlt alts vs (present.toNat - 1) <;> simp_all [Res.isOk]
  case case19 =>
    rename_i alts p present vs h1 h2 h3 n htn hin ih hx
    exact absurd hin (marshal_no_panic.2.2.2 _ _ _ (by simpa [optNilable] using hx))
  case case21 =>
    rename_i fs p vs h1 inner hin ih hx
    have ih' := ih (by simpa [optNilable] using hx)
    rw [hin] at ih'
    rw [marshal, encode]
    simp only [h1, hin, if_false]
    cases he : encodeMembers fs vs <;> simp_all [Res.isOk]
  case case24 =>
    rename_i t p vs inner hin ih hx
    have ih' := ih (by simpa [optNilable] using hx)
    rw [hin] at ih'
    rw [marshal, encode]
    simp only [hin]
    cases he : encodeList t { p with tagNumber := none } vs <;> simp_all [Res.isOk]
  case case30 =>
    rename_i t p v vs a b hr ha ih2 ih1 hx
    have g1 := ih1 hx
    have g2 := ih2 hx
    rw [hr] at g1; rw [ha] at g2
    rw [marshalElems, encodeList]
    simp only [hr, ha]
    cases h1 : encode t p v <;> cases h2 : encodeList t p vs <;> simp_all [Res.isOk]
  case case38 =>
    rename_i p t r v vs h1 h2 h3 hx
    rw [marshalFields, encodeMembers]
    simp only [h1, h2, h3, if_false, if_true]
    simp [Res.isOk]
  case case39 =>
    rename_i p t r v vs h1 h2 h3 a b hr ha ih2 ih1 hx
    simp only [optNilableFs, Bool.and_eq_true] at hx
    have g1 := ih1 hx.2
    have g2 := ih2 hx.1.2
    rw [hr] at g1; rw [ha] at g2
    rw [marshalFields, encodeMembers]
    simp only [h1, h2, h3, hr, ha, if_false]
    cases e1 : encode t p v <;> cases e2 : encodeMembers r vs <;> simp_all [Res.isOk]
  case case40 =>
    rename_i p t r v vs h1 h2 h3 ha ih2 ih1 hx
    simp only [optNilableFs, Bool.and_eq_true] at hx
    exact absurd ha (marshal_no_panic.1 _ _ _ hx.1.2)
  case case41 =>
    rename_i p t r v vs h1 h2 h3 ha ih2 ih1 hx
    simp only [optNilableFs, Bool.and_eq_true] at hx
    have g2 := ih2 hx.1.2
    rw [ha] at g2
    rw [marshalFields, encodeMembers]
    simp only [h1, h2, h3, ha, if_false]
    cases e1 : encode t p v <;> simp_all [Res.isOk]
  case case42 =>
    rename_i p t r v vs h1 h2 h3 a hr ha ih2 ih1 hx
    simp only [optNilableFs, Bool.and_eq_true] at hx
    have g1 := ih1 hx.2
    rw [hr] at g1
    rw [marshalFields, encodeMembers]
    simp only [h1, h2, h3, hr, ha, if_false]
    cases e1 : encode t p v <;> cases e2 : encodeMembers r vs <;> simp_all [Res.isOk]


def Vals.append : Vals → Vals → Vals
  | .nil, w => w
  | .cons v r, w => .cons v (Vals.append r w)

theorem Vals.any_append (f : Val → Bool) : ∀ (a b : Vals), (a.append b).any f = (a.any f || b.any f)
  | .nil, b => by simp [Vals.append, Vals.any]
  | .cons v r, b => by simp [Vals.append, Vals.any, Vals.any_append f r b, Bool.or_assoc]

theorem Res.eq_err_of_isErr {α : Type} {r : Res α} (h : r.isErr = true) : r = .err := by
  cases r <;> simp_all [Res.isErr]

/-- a SEQUENCE OF with an element that cannot be marshalled is an error, whatever stands before and behind it -/
theorem marshalElems_err_anywhere (t : Ty) (p : Params) (ht : optNilable t = true) (pre post : Vals) (v : Val)
    (hv : marshal t p v = .err) : marshalElems t p (pre.append (.cons v post)) = .err := by
  have h := (marshalElems_isErr t p (fun v => marshal_no_panic.1 t p v ht) (pre.append (.cons v post))).2
  rw [Vals.any_append] at h
  simp only [Vals.any, hv, Res.isErr, Bool.true_or, Bool.or_true] at h
  exact Res.eq_err_of_isErr h

/-- a present, supported member that cannot be marshalled makes the SEQUENCE an error … -/
theorem marshalFields_err_of_member (p : Params) (t : Ty) (r : Fields) (v : Val) (vs : Vals)
    (hn : (p.optional && !nilable t) = false) (hpres : (p.optional && isNilVal v) = false)
    (hv : marshal t p v = .err) : marshalFields (.cons p t r) (.cons v vs) = .err := by
  rw [marshalFields]
  have h1 : ¬(p.optional = true ∧ ¬nilable t = true) := by
    intro h; simp [h.1] at hn; exact h.2 hn
  have h2 : ¬(p.optional = true ∧ isNilVal v = true) := by
    intro h; simp [h.1, h.2] at hpres
  simp only [h1, h2, if_false, hv]
  split <;> rfl

/-- … and so does any later member that is one -/
theorem marshalFields_err_of_rest (p : Params) (t : Ty) (r : Fields) (v : Val) (vs : Vals)
    (ho : optNilableFs (.cons p t r) = true) (hr : marshalFields r vs = .err) :
    marshalFields (.cons p t r) (.cons v vs) = .err := by
  simp only [optNilableFs, Bool.and_eq_true, Bool.or_eq_true, Bool.not_eq_true'] at ho
  have hnp := marshal_no_panic.1 t p v ho.1.2
  rw [marshalFields]
  have h1 : ¬(p.optional = true ∧ ¬nilable t = true) := by
    intro h; rcases ho.1.1 with h' | h' <;> simp_all
  simp only [h1, if_false, hr]
  split
  · rfl
  · split
    · rfl
    · cases hm : marshal t p v <;> simp_all

end Chf.Ber
