import ChfVerif.Lemmas.ChargingSids
import ChfVerif.Lemmas.ChargingStep
/-
  The notification address of a subscriber across histories: once a consumer of the subscriber has registered one
  (an accepted create that carries a notifyUri), no operation takes it away again.
-/
namespace Chf.Charging

/-- shape of the state after each operation, as far as the notification address is concerned: the subscriber contexts are
    as before, or exactly one context `ue'` is (re)placed, and if its subscriber was known with a registered address before,
    `ue'` still has one -/
theorem step_notify (guard : SplitGuard) (s : State) (op : Op) :
    (step guard s op).1.ues = s.ues ∨
    ∃ ue' : Ue, (step guard s op).1.ues = putUe s.ues ue' ∧
      ∀ u, findUe s.ues ue'.supi = some u → u.notifyUri = true → ue'.notifyUri = true := by
  cases op with
  | create r =>
    simp only [step, create]
    cases hnf : r.nf with
    | none => left; rfl
    | some nf =>
      simp only
      by_cases hp : supiAccepted r.supi = true
      · right
        simp only [hp, not_true_eq_false, if_false]
        by_cases hb : r.bad = true
        · simp only [hb, if_true]
          refine ⟨_, rfl, ?_⟩
          intro u hu hreg
          cases hf : findUe s.ues r.supi with
          | none =>
            simp only [hf] at hu
            exact absurd hu (by simp)
          | some u0 =>
            simp only [hf] at hu ⊢
            have e : u0.supi = r.supi := findUe_supi hf
            rw [e, hf] at hu
            cases hu; exact hreg
        · simp only [hb, Bool.false_eq_true, if_false]
          refine ⟨_, rfl, ?_⟩
          intro u hu hreg
          cases hf : findUe s.ues r.supi with
          | none =>
            simp only [hf] at hu
            exact absurd hu (by simp)
          | some u0 =>
            simp only [hf] at hu ⊢
            have e : u0.supi = r.supi := findUe_supi hf
            rw [e, hf] at hu
            cases hu; simp [hreg]
      · left; simp [hp]
  | update sid r =>
    simp only [step, update]
    cases hu : findUe s.ues r.supi with
    | none => left; rfl
    | some ue =>
      simp only
      cases hl : lookupSid ue.cdr sid with
      | none => left; rfl
      | some idx =>
        right
        simp only
        refine ⟨_, rfl, ?_⟩
        intro u hu' hreg
        have e : ue.supi = r.supi := findUe_supi hu
        simp only [e, hu] at hu'
        cases hu'; exact hreg
  | release sid r =>
    simp only [step, release]
    cases hu : findUe s.ues r.supi with
    | none => left; rfl
    | some ue =>
      simp only
      cases hl : lookupSid ue.cdr sid with
      | none => left; rfl
      | some idx =>
        right
        simp only
        refine ⟨_, rfl, ?_⟩
        intro u hu' hreg
        have e : ue.supi = r.supi := findUe_supi hu
        simp only [e, hu] at hu'
        cases hu'; exact hreg
  | recharge info =>
    simp only [step, recharge]
    split
    · split
      · left; rfl
      · split
        · left; rfl
        · rename_i ue hu
          right
          refine ⟨_, rfl, ?_⟩
          intro u hu' hreg
          have e := findUe_supi hu
          simp only [e, hu] at hu'
          cases hu'; exact hreg
    · left; rfl
  | credit a b c =>
    left
    simp only [step, creditAcct]
    split
    · split <;> rfl
    · rfl

/-- one operation leaves a registered address registered -/
theorem registered_step (guard : SplitGuard) (s : State) (op : Op) (supi : Bytes) (u : Ue)
    (hu : findUe s.ues supi = some u) (hreg : u.notifyUri = true) :
    ∃ u', findUe (step guard s op).1.ues supi = some u' ∧ u'.notifyUri = true := by
  rcases step_notify guard s op with h | ⟨ue', h, hk⟩
  · rw [h]; exact ⟨u, hu, hreg⟩
  · rw [h]
    by_cases e : supi = ue'.supi
    · subst e
      exact ⟨ue', findUe_putUe_same _ _, hk u hu hreg⟩
    · rw [findUe_putUe_other _ _ _ e]; exact ⟨u, hu, hreg⟩

/-- … and so does any history -/
theorem registered_run (guard : SplitGuard) (ops : List Op) : ∀ (s : State) (supi : Bytes) (u : Ue),
    findUe s.ues supi = some u → u.notifyUri = true →
    ∃ u', findUe (run guard s ops).ues supi = some u' ∧ u'.notifyUri = true := by
  induction ops with
  | nil => intro s supi u hu hreg; exact ⟨u, hu, hreg⟩
  | cons op r ih =>
    intro s supi u hu hreg
    obtain ⟨u1, h1, hr1⟩ := registered_step guard s op supi u hu hreg
    exact ih _ supi u1 h1 hr1

end Chf.Charging
