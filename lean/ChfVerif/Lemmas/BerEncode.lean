import ChfVerif.Lemmas.BerHeader
namespace Chf.Ber
open Chf Chf.X690



theorem unused_eq (n : Nat) : (8 - n % 8) % 8 = if n % 8 = 0 then 0 else 8 - n % 8 := by
  split <;> omega

theorem stringTag_eq (p : Params) (d : Nat) : stringTagOf p d = if p.stringType = 0 then d else p.stringType := by
  unfold stringTagOf; split <;> simp_all

theorem stringTag_lt (p : Params) (d : Nat) (hp : paramsOK p = true) (hd : d < 18446744073709551616) :
    stringTagOf p d < 18446744073709551616 := by
  unfold stringTagOf paramsOK at *
  simp only [Bool.and_eq_true, decide_eq_true_eq] at hp
  split <;> omega

theorem seqTag_lt (p : Params) : seqTag p < 18446744073709551616 := by unfold seqTag; split <;> decide

theorem marshal_bits_eq (p : Params) (bs : Bytes) (n : Nat) (b : Bytes) (hp : paramsOK p = true) (hv : valOK (Val.bits bs n) = true)
    (hm : marshal Ty.bits p (Val.bits bs n) = Res.ok b) (hl : b.length < 18446744073709551616) :
    encode Ty.bits p (Val.bits bs n) = some b := by
  rw [marshal] at hm
  simp only [Res.ok.injEq] at hm
  subst hm
  rw [encode]
  simp only [Option.some.injEq]
  rw [finish_eq _ _ _ _ hp (by decide) hl, unused_eq]

theorem marshal_octets_eq (p : Params) (bs : Bytes) (b : Bytes) (hp : paramsOK p = true) (hv : valOK (Val.bytes bs) = true)
    (hm : marshal Ty.octets p (Val.bytes bs) = Res.ok b) (hl : b.length < 18446744073709551616) :
    encode Ty.octets p (Val.bytes bs) = some b := by
  rw [marshal] at hm
  simp only [Res.ok.injEq] at hm
  subst hm
  rw [encode]
  simp only [Option.some.injEq]
  rw [finish_eq _ _ _ _ hp (by decide) hl]

theorem marshal_octetsNil_eq (p : Params)  (b : Bytes) (hp : paramsOK p = true) (hv : valOK (Val.nil) = true)
    (hm : marshal Ty.octets p (Val.nil) = Res.ok b) (hl : b.length < 18446744073709551616) :
    encode Ty.octets p (Val.nil) = some b := by
  rw [marshal] at hm
  simp only [Res.ok.injEq] at hm
  subst hm
  rw [encode]
  simp only [Option.some.injEq]
  rw [finish_eq _ _ _ _ hp (by decide) hl]

theorem marshal_enum_eq (p : Params) (i : Int) (b : Bytes) (hp : paramsOK p = true) (hv : valOK (Val.int i) = true)
    (hm : marshal Ty.enum p (Val.int i) = Res.ok b) (hl : b.length < 18446744073709551616) :
    encode Ty.enum p (Val.int i) = some b := by
  rw [marshal] at hm
  simp only [Res.ok.injEq] at hm
  subst hm
  rw [encode]
  simp only [Option.some.injEq]
  rw [finish_eq _ _ _ _ hp (by decide) hl, intBytes_eq _ (by simpa [valOK] using hv)]

theorem marshal_null_eq (p : Params) (x : Bool) (b : Bytes) (hp : paramsOK p = true) (hv : valOK (Val.null x) = true)
    (hm : marshal Ty.null p (Val.null x) = Res.ok b) (hl : b.length < 18446744073709551616) :
    encode Ty.null p (Val.null x) = some b := by
  rw [marshal] at hm
  simp only [Res.ok.injEq] at hm
  subst hm
  rw [encode]
  simp only [Option.some.injEq]
  rw [finish_eq _ _ _ _ hp (by decide) hl]

theorem marshal_bool_eq (p : Params) (x : Bool) (b : Bytes) (hp : paramsOK p = true) (hv : valOK (Val.bool x) = true)
    (hm : marshal Ty.bool p (Val.bool x) = Res.ok b) (hl : b.length < 18446744073709551616) :
    encode Ty.bool p (Val.bool x) = some b := by
  rw [marshal] at hm
  simp only [Res.ok.injEq] at hm
  subst hm
  rw [encode]
  simp only [Option.some.injEq]
  rw [finish_eq _ _ _ _ hp (by decide) hl]

theorem marshal_int_eq (p : Params) (w : Nat) (i : Int) (b : Bytes) (hp : paramsOK p = true) (hv : valOK (Val.int i) = true)
    (hm : marshal (Ty.int w) p (Val.int i) = Res.ok b) (hl : b.length < 18446744073709551616) :
    encode (Ty.int w) p (Val.int i) = some b := by
  rw [marshal] at hm
  simp only [Res.ok.injEq] at hm
  subst hm
  rw [encode]
  simp only [Option.some.injEq]
  rw [finish_eq _ _ _ _ hp (by decide) hl, intBytes_eq _ (by simpa [valOK] using hv)]

theorem marshal_str_eq (p : Params) (d : Nat) (bs : Bytes) (b : Bytes) (hp : paramsOK p = true) (hd : d < 18446744073709551616)
    (hm : marshal (Ty.str d) p (Val.str bs) = Res.ok b) (hl : b.length < 18446744073709551616) :
    encode (Ty.str d) p (Val.str bs) = some b := by
  rw [marshal] at hm
  simp only [Res.ok.injEq] at hm
  subst hm
  rw [encode]
  simp only [Option.some.injEq]
  rw [finish_eq _ _ _ _ hp (stringTag_lt _ _ hp hd) hl, stringTag_eq]

theorem marshal_sliceNil_eq (p : Params) (t : Ty) (b : Bytes) (hp : paramsOK p = true)
    (hm : marshal (Ty.slice t) p Val.nil = Res.ok b) (hl : b.length < 18446744073709551616) :
    encode (Ty.slice t) p Val.nil = some b := by
  rw [marshal] at hm
  simp only [Res.ok.injEq] at hm
  subst hm
  rw [encode]
  simp only [Option.some.injEq]
  rw [finish_eq _ _ _ _ hp (seqTag_lt _) hl]
  simp [seqTag]

set_option maxHeartbeats 4000000 in
theorem marshal_eq_encode_all :
    (∀ t p v, ∀ b, tagsOK t = true → paramsOK p = true → valOK v = true → marshal t p v = .ok b →
        b.length < 18446744073709551616 → encode t p v = some b) ∧
    (∀ t p vs, ∀ b, tagsOK t = true → paramsOK p = true → valsOK vs = true → marshalElems t p vs = .ok b →
        b.length < 18446744073709551616 → encodeList t p vs = some b) ∧
    (∀ fs vs, ∀ b, tagsOKFs fs = true → valsOK vs = true → marshalFields fs vs = .ok b →
        b.length < 18446744073709551616 → encodeMembers fs vs = some b) ∧
    (∀ fs vs n, ∀ b, tagsOKFs fs = true → valsOK vs = true → marshalAlt fs vs n = .ok b →
        b.length < 18446744073709551616 → encodeAlt fs vs n = some b) := by
  have key := marshal.mutual_induct
    (motive1 := fun t p v => ∀ b, tagsOK t = true → paramsOK p = true → valOK v = true → marshal t p v = .ok b →
        b.length < 18446744073709551616 → encode t p v = some b)
    (motive2 := fun t p vs => ∀ b, tagsOK t = true → paramsOK p = true → valsOK vs = true → marshalElems t p vs = .ok b →
        b.length < 18446744073709551616 → encodeList t p vs = some b)
    (motive3 := fun fs vs => ∀ b, tagsOKFs fs = true → valsOK vs = true → marshalFields fs vs = .ok b →
        b.length < 18446744073709551616 → encodeMembers fs vs = some b)
    (motive4 := fun fs vs n => ∀ b, tagsOKFs fs = true → valsOK vs = true → marshalAlt fs vs n = .ok b →
        b.length < 18446744073709551616 → encodeAlt fs vs n = some b)
  apply key <;> clear key
  all_goals (intros; first
    | (simp_all [marshal, marshalElems, marshalFields, marshalAlt, encode, encodeList, encodeMembers, encodeAlt]; done)
    | skip)
  all_goals first
    | (rename_i hp hv hm hl; first
        | exact marshal_bits_eq _ _ _ _ hp hv hm hl
        | exact marshal_octets_eq _ _ _ hp hv hm hl
        | exact marshal_octetsNil_eq _ _ hp hv hm hl
        | exact marshal_enum_eq _ _ _ hp hv hm hl
        | exact marshal_null_eq _ _ _ hp hv hm hl
        | exact marshal_bool_eq _ _ _ hp hv hm hl
        | exact marshal_int_eq _ _ _ _ hp hv hm hl
        | exact marshal_sliceNil_eq _ _ _ hp hm hl
        | (rename_i ht _ _ _ _; exact marshal_str_eq _ _ _ _ hp (by simpa [tagsOK] using ht) hm hl))
    | skip
  case case2 =>
    rename_i t p v hne ih b ht hp hv hm hl
    have e1 : marshal (.ptr t) p v = marshal t p v := by simp [marshal]
    have e2 : encode (.ptr t) p v = encode t p v := by simp [encode]
    rw [e1] at hm; rw [e2]
    exact ih _ (by simpa [tagsOK] using ht) hp hv hm hl
  case case11 =>
    rename_i d p bs b ht hp hv hm hl
    exact marshal_str_eq _ _ _ _ hp (by simpa [tagsOK] using ht) hm hl
  case case12 =>
    rename_i t p v ih b ht hp hv hm hl
    rw [marshal] at hm; rw [encode]
    exact ih _ (by simpa [tagsOK] using ht) hp hv hm hl
  case case16 =>
    rename_i alts p present vs h1 h2 h3 htn ih b ht hp hv hm hl
    simp only [marshal, h1, h2, h3, htn, if_false] at hm
    have := ih _ (by simpa [tagsOK] using ht) (by simpa [valOK] using hv) hm hl
    simp [encode, h1, h3, htn, this]
  case case17 =>
    rename_i alts p present vs h1 h2 h3 n htn inner hin ih b ht hp hv hm hl
    simp [marshal, h1, h2, h3, htn, hin] at hm
    subst hm
    have hle := tlv_length_ge 2 true n inner
    have := ih _ (by simpa [tagsOK] using ht) (by simpa [valOK] using hv) hin (by omega)
    have hn : n < 18446744073709551616 := by simp [paramsOK, htn] at hp; exact hp.1
    have te := tlv_eq 2 true n inner hn (by omega)
    simp [encode, h1, h3, htn, this, te]
  case case19 =>
    rename_i alts p present vs h1 h2 h3 n htn hin ih b ht hp hv hm hl
    simp [marshal, h1, h2, h3, htn, hin] at hm
  case case21 =>
    rename_i fs p vs h1 inner hin ih b ht hp hv hm hl
    simp only [marshal, h1, hin, if_false, Res.ok.injEq] at hm
    subst hm
    have hle := finish_length_ge p true (seqTag p) inner
    have := ih _ (by simpa [tagsOK] using ht) (by simpa [valOK] using hv) hin (by omega)
    have fe := finish_eq _ _ _ _ hp (seqTag_lt p) hl
    simp only [seqTag] at fe ⊢
    simp [encode, h1, this, fe]
  case case24 =>
    rename_i t p vs inner hin ih b ht hp hv hm hl
    simp only [marshal, hin, Res.ok.injEq] at hm
    subst hm
    have hle := finish_length_ge p true (seqTag p) inner
    have := ih _ (by simpa [tagsOK] using ht) (by simp [paramsOK] at hp ⊢; exact hp.2) (by simpa [valOK] using hv) hin (by omega)
    have fe := finish_eq _ _ _ _ hp (seqTag_lt p) hl
    simp only [seqTag] at fe ⊢
    simp [encode, this, fe]
  case case30 =>
    rename_i t p v vs a r hr ha ih1 ih2 b ht hp hv hm hl
    simp only [marshalElems, hr, ha, Res.ok.injEq] at hm
    subst hm
    simp only [valsOK, Bool.and_eq_true] at hv
    simp only [List.length_append] at hl
    have h1 := ih1 _ ht hp hv.1 ha (by omega)
    have h2 := ih2 _ ht hp hv.2 hr (by omega)
    simp [encodeList, h1, h2]
  case case37 =>
    rename_i p t r v vs h1 h2 ih b ht hv hm hl
    rw [marshalFields, if_neg h1, if_pos h2] at hm
    simp only [valsOK, tagsOKFs, Bool.and_eq_true] at hv ht
    have := ih _ ht.2 hv.2 hm hl
    rw [encodeMembers, if_pos (by simpa using h2)]
    exact this
  case case38 =>
    rename_i p t r v vs h1 h2 h3 b ht hv hm hl
    rw [marshalFields, if_neg h1, if_neg h2, if_pos h3] at hm
    cases hm
  case case39 =>
    rename_i p t r v vs h1 h2 h3 a rr hr ha ih1 ih2 b ht hv hm hl
    rw [marshalFields, if_neg h1, if_neg h2, if_neg h3, hr, ha] at hm
    simp only [Res.ok.injEq] at hm
    subst hm
    simp only [valsOK, tagsOKFs, Bool.and_eq_true] at hv ht
    simp only [List.length_append] at hl
    have g1 := ih1 _ ht.1.2 ht.1.1 hv.1 ha (by omega)
    have g2 := ih2 _ ht.2 hv.2 hr (by omega)
    rw [encodeMembers, if_neg (by simpa using h2), if_neg h3, g1, g2]
  case case40 =>
    rename_i p t r v vs h1 h2 h3 ha ih2 ih1 b ht hv hm hl
    rw [marshalFields, if_neg h1, if_neg h2, if_neg h3, ha] at hm
    simp at hm
  case case41 =>
    rename_i p t r v vs h1 h2 h3 ha ih2 ih1 b ht hv hm hl
    rw [marshalFields, if_neg h1, if_neg h2, if_neg h3, ha] at hm
    simp at hm
  case case42 =>
    rename_i p t r v vs h1 h2 h3 a hr ha ih2 ih1 b ht hv hm hl
    rw [marshalFields, if_neg h1, if_neg h2, if_neg h3, ha, hr] at hm
    simp at hm
  case case45 =>
    rename_i p t r v vs ih b ht hv hm hl
    rw [marshalAlt] at hm; rw [encodeAlt]
    simp only [valsOK, tagsOKFs, Bool.and_eq_true] at hv ht
    exact ih _ ht.1.2 ht.1.1 hv.1 hm hl
  case case46 =>
    rename_i p t r v vs n ih b ht hv hm hl
    rw [marshalAlt] at hm; rw [encodeAlt]
    simp only [valsOK, tagsOKFs, Bool.and_eq_true] at hv ht
    exact ih _ ht.2 hv.2 hm hl

end Chf.Ber
