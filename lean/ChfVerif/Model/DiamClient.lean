/-
  Model of the CHF's Diameter client functions, internal/abmf/abmf.go : SendAccountDebitRequest / HandleCCA and
  internal/rating/rating.go : SendServiceUsageRequest / HandleSUA, as a state machine driven by an adversarial
  scheduler.  One machine per subscriber and peer (the go-diameter state machine `ue.AbmfMux` / `ue.RatingMux`,
  its registered answer handler, the answer channel, the connections dialled so far).

  What the code does per request (under the subscriber lock, so requests of one subscriber do not overlap):
    Handle(cmd, handler(chan))     — takes the mux *write* lock; replaces the handler for ALL connections of the mux
    conn := Dial…                  — a new connection
    write request
    select { <-chan | <-time.After(timeout) }
    return                         — `defer conn.Close()` if present
  The dial is a phase of its own (`startSlow … dialDone`): a peer may accept the TCP connection and take seconds over
  the TLS handshake or the capabilities exchange.  The code dials synchronously - the request waits for the
  connection, however long that takes, and only then writes its request and starts its answer timer.  A dial made in
  a task of its own with a deadline (`syncDial = false`) lets the request return while the set-up is still running:
  the connection that set-up produces later belongs to nobody.
  and per answer read from a connection that is still open: the mux takes its *read* lock, calls the registered
  handler, which sends the message to its channel (blocking, or `select … default`).

  The parameters `Cfg` are syntactic facts about the two functions, regenerated from the working tree
  (Gen/DiamClient.lean).
-/
namespace Chf.DiamClient

structure Cfg where
  closesConn : Bool     -- `defer conn.Close()`
  ownChan : Bool        -- the channel is made by the request itself (otherwise one channel per subscriber)
  buffered : Bool       -- channel capacity ≥ 1
  nonBlocking : Bool    -- the handler's send is a `select` case with a `default`
  timeoutMs : Nat
  watchdog : Bool := false  -- the sm.Client is built with `EnableWatchdog: true` (one watchdog task per connection)
  syncDial : Bool := true   -- the dial is a plain call of the request's own task: no `go` statement in the function,
                            -- the DialNetworkTLS call not inside a function literal
  dialDeadlineMs : Nat := 0 -- with an asynchronous dial: after how long the request stops waiting for it (0: never)
  serial : Bool := true     -- every call of the client function is an ordinary call made by the charging operation
                            -- itself (which holds the subscriber lock): no call site sits in a `go` statement, a deferred
                            -- call or a function literal, directly or through a helper function
  connBound : Bool := true  -- the handler is registered for the connection its request dialled and ignores messages
                            -- read from any other connection (`if c != from { return }`)
deriving DecidableEq, Repr

def Cfg.good (c : Cfg) : Bool :=
  c.closesConn && c.ownChan && c.buffered && c.nonBlocking && decide (0 < c.timeoutMs) && c.syncDial && c.serial &&
  c.connBound

/-- the facts `Cfg.good` stands for, by name -/
structure Cfg.Good (c : Cfg) : Prop where
  closesConn : c.closesConn = true
  ownChan : c.ownChan = true
  buffered : c.buffered = true
  nonBlocking : c.nonBlocking = true
  timeout : 0 < c.timeoutMs
  syncDial : c.syncDial = true
  serial : c.serial = true
  connBound : c.connBound = true

theorem Cfg.good_unpack {c : Cfg} (h : c.good = true) : c.Good := by
  simp only [Cfg.good, Bool.and_eq_true, decide_eq_true_eq] at h
  obtain ⟨⟨⟨⟨⟨⟨⟨h1, h2⟩, h3⟩, h4⟩, h5⟩, h6⟩, h7⟩, h8⟩ := h
  exact ⟨h1, h2, h3, h4, h5, h6, h7, h8⟩

inductive Outcome where
  | own (k : Nat)               -- request k acted upon the answer to request k
  | foreign (k j : Nat)         -- request k acted upon the answer to request j ≠ k
  | timeout (k : Nat)
deriving DecidableEq, Repr

/-- scheduler choices -/
inductive Ev where
  | start               -- the subscriber's next request begins (ignored while one is in progress)
  | answer (j : Nat)    -- the peer's answer to request j reaches the CHF
  | timeout             -- the timer of the waiting request fires
  | ret                 -- the request's function returns (deferred calls run)
  | startSlow           -- the subscriber's next request begins; its connection set-up is in progress
  | dialDone (k : Nat)  -- the connection set-up of request k completes (TLS handshake and capabilities exchange done)
  | dialGiveUp          -- the request stops waiting for its dial (possible only when the dial runs in a task of its own)
  | staleAnswer (j : Nat) -- the reader task of request j's connection, closed meanwhile, hands on a message it had already
                        -- read: the state machine is shared by all connections of the subscriber, so the message goes to
                        -- the handler registered NOW
deriving DecidableEq, Repr

structure St where
  next : Nat := 1                  -- identifier of the next request
  cur : Option Nat := none         -- request waiting in its select
  returning : Option Nat := none   -- request past its select, function not returned yet
  conns : List Nat := []           -- requests whose connection is open
  reg : Nat := 0                   -- channel of the currently registered handler
  buf : List (Nat × Nat) := []     -- (channel, answer) pairs sitting in channel buffers
  blocked : Nat := 0               -- handler goroutines blocked on a send, each holding the mux read lock
  wedged : Bool := false           -- a request is stuck in Handle() behind a read-locked mux, for ever
  log : List Outcome := []         -- most recent first
  dialing : Option Nat := none     -- request whose connection is being set up and which waits for it
  lateDials : List Nat := []       -- connection set-ups still running although their request has given up on them
  stale : List Nat := []           -- closed connections whose reader task may still hold one message it had read
deriving Repr

/-- the channel request `k` waits on -/
def chanOf (cfg : Cfg) (k : Nat) : Nat := if cfg.ownChan then k else 0

def outcomeOf (k j : Nat) : Outcome := if j = k then .own k else .foreign k j

def hasMsg (buf : List (Nat × Nat)) (c : Nat) : Bool := buf.any (fun x => x.1 == c)

def takeMsg (buf : List (Nat × Nat)) (c : Nat) : Option (Nat × List (Nat × Nat)) :=
  match buf.find? (fun x => x.1 == c) with
  | some x => some (x.2, buf.erase x)
  | none => none

/-- the waiting request takes a message that already sits in its channel -/
def drain (cfg : Cfg) (s : St) : St :=
  match s.cur with
  | none => s
  | some k =>
    match takeMsg s.buf (chanOf cfg k) with
    | some (j, rest) => { s with cur := none, returning := some k, buf := rest, log := outcomeOf k j :: s.log }
    | none => s

def step (cfg : Cfg) (s : St) : Ev → St
  | .start =>
    if s.wedged then s
    else if cfg.serial && (s.cur.isSome || s.returning.isSome || s.dialing.isSome) then s   -- subscriber lock: one request at a time
    -- (a request made in the background - `serial = false` - starts while another one waits: that one keeps its
    --  connection, is no longer the registered receiver and will not be heard of again)
    else if s.blocked > 0 then { s with wedged := true }     -- Handle() waits for the write lock for ever
    else
      drain cfg { s with next := s.next + 1, cur := some s.next, conns := s.next :: s.conns, reg := chanOf cfg s.next }
  | .startSlow =>
    if s.wedged then s
    else if cfg.serial && (s.cur.isSome || s.returning.isSome || s.dialing.isSome) then s
    else if s.blocked > 0 then { s with wedged := true }
    else { s with next := s.next + 1, dialing := some s.next, reg := chanOf cfg s.next }   -- Handle() precedes the dial
  | .dialDone k =>
    if s.dialing = some k then
      -- the request writes its message and starts waiting (a message already in its channel is taken at once)
      drain cfg { s with dialing := none, cur := some k, conns := k :: s.conns }
    else if s.lateDials.contains k then
      { s with lateDials := s.lateDials.erase k, conns := k :: s.conns }    -- established, and nobody will close it
    else s
  | .dialGiveUp =>
    match s.dialing with
    | some k =>
      if cfg.syncDial then s                                 -- a synchronous dial has no deadline
      else { s with dialing := none, returning := some k, lateDials := k :: s.lateDials, log := .timeout k :: s.log }
    | none => s
  | .answer j =>
    if !s.conns.contains j then s                            -- the connection is closed: nothing is read
    else
      match s.cur with
      | some k =>
        if chanOf cfg k = s.reg then
          { s with cur := none, returning := some k, log := outcomeOf k j :: s.log }
        else s                                               -- unreachable: the waiting request registered last
      | none =>
        -- nobody is receiving on the registered handler's channel
        if cfg.buffered && !hasMsg s.buf s.reg then { s with buf := (s.reg, j) :: s.buf }
        else if cfg.nonBlocking then s                       -- dropped by the `default` clause
        else { s with blocked := s.blocked + 1 }
  | .timeout =>
    match s.cur with
    | some k => { s with cur := none, returning := some k, log := .timeout k :: s.log }
    | none => s
  | .ret =>
    match s.returning with
    | some k => { s with returning := none, conns := if cfg.closesConn then s.conns.filter (· != k) else s.conns,
                         stale := if cfg.closesConn then k :: s.stale else s.stale }
    | none => s
  | .staleAnswer j =>
    if !s.stale.contains j then s
    else
      let s := { s with stale := s.stale.erase j }
      if cfg.connBound then s                                -- not the connection the registered handler was made for: ignored
      else
        match s.cur with
        | some k =>
          if chanOf cfg k = s.reg then
            { s with cur := none, returning := some k, log := outcomeOf k j :: s.log }
          else s
        | none =>
          if cfg.buffered && !hasMsg s.buf s.reg then { s with buf := (s.reg, j) :: s.buf }
          else if cfg.nonBlocking then s
          else { s with blocked := s.blocked + 1 }

def run (cfg : Cfg) (s : St) (evs : List Ev) : St := evs.foldl (step cfg) s

/-! ### background tasks (C18)

  go-diameter serves a client connection with one reader task; with `EnableWatchdog` it starts, after the
  handshake, a watchdog task that loops `select { <-closeNotify | <-time.After(interval): send DWR }`.  The close
  notification is produced by a pipe-copy routine which `diam/server.go: liveSwitchReader.Read` starts only at the
  *next* Read after `CloseNotify()` was first called — the reader is already inside its Read when the watchdog
  asks, so the routine starts only after a message has been read and its handler has returned.  A connection
  closed before that (the request timed out, or its handler is stuck) never notifies: its watchdog lives on for
  ever, waking up every interval to fail a write.  `WSt` adds that bookkeeping to the machine as ghost state. -/

structure WSt where
  st : St := {}
  armed : List Nat := []     -- open connections whose close notification is armed
  orphans : Nat := 0         -- watchdog tasks of closed connections that will never be notified
deriving Repr

/-- the handler that reads an answer on an open connection returns (and the reader goes back to Read) -/
def handlerReturns (cfg : Cfg) (s : St) : Bool :=
  match s.cur with
  | some k => chanOf cfg k = s.reg
  | none => (cfg.buffered && !hasMsg s.buf s.reg) || cfg.nonBlocking

def stepW (cfg : Cfg) (w : WSt) (ev : Ev) : WSt :=
  let s' := step cfg w.st ev
  match ev with
  | .answer j =>
    if w.st.conns.contains j && handlerReturns cfg w.st then { w with st := s', armed := j :: w.armed }
    else { w with st := s' }
  | .ret =>
    match w.st.returning with
    | some k =>
      if cfg.closesConn then
        { st := s', armed := w.armed.filter (· != k),
          orphans := if cfg.watchdog && !w.armed.contains k then w.orphans + 1 else w.orphans }
      else { w with st := s' }
    | none => { w with st := s' }
  | _ => { w with st := s' }

def runW (cfg : Cfg) (w : WSt) (evs : List Ev) : WSt := evs.foldl (stepW cfg) w

/-- reader (+ watchdog) per open connection, handlers stuck in a send, watchdogs of closed connections -/
def tasks (cfg : Cfg) (w : WSt) : Nat :=
  (if cfg.watchdog then 2 else 1) * w.st.conns.length + w.st.blocked + w.orphans

/-! ### timed scripts (used by the correspondence check)

  A call is `(gap, delay, copies)`: `gap` ms pass before the request is sent, the peer answers `delay` ms after
  that, `copies` times back to back.
  The scheduler below delivers everything in time order; an answer that arrives exactly with the timer loses
  to the timer (the scripts used keep clear of ties). -/

structure Sim where
  w : WSt := {}
  now : Nat := 0
  pending : List (Nat × Nat) := []      -- (arrival time, request) of answers still on their way
deriving Repr

/-- deliver, in arrival order, the pending answers with arrival time < `t` while `go` holds -/
def deliverUntil (cfg : Cfg) (sim : Sim) (t : Nat) (stopWhenIdle : Bool) : Nat → Sim
  | 0 => sim
  | fuel + 1 =>
    if stopWhenIdle && sim.w.st.cur.isNone then sim
    else
      match (sim.pending.filter (fun p => p.1 < t)).foldl
          (fun (m : Option (Nat × Nat)) p => match m with
            | none => some p
            | some q => if p.1 < q.1 then some p else some q) none with
      | none => sim
      | some p =>
        deliverUntil cfg { sim with w := stepW cfg sim.w (.answer p.2), now := max sim.now p.1,
                                    pending := sim.pending.erase p } t stopWhenIdle fuel

inductive CallResult where
  | done (o : Outcome) (elapsed : Nat)
  | hung
deriving DecidableEq, Repr

/-- `n` further copies of the answer to request `k`, read one after the other -/
def repeatAnswer (cfg : Cfg) (w : WSt) (k : Nat) : Nat → WSt
  | 0 => w
  | n + 1 => repeatAnswer cfg (stepW cfg w (.answer k)) k n

/-- one request whose connection set-up takes `setup` ms and whose answer (if any) reaches the CHF `copies` times,
    `delay` ms after the request was written: returns the machine afterwards and what the caller saw -/
def call (cfg : Cfg) (sim : Sim) (gap delay : Nat) (copies : Nat := 1) (setup : Nat := 0) : Sim × CallResult :=
  let sim := { sim with now := sim.now + gap }
  let sim := deliverUntil cfg sim (sim.now + 1) false (sim.pending.length + 1)
  let t0 := sim.now
  let logLen := sim.w.st.log.length
  let k := sim.w.st.next
  let w1 := stepW cfg sim.w (if setup = 0 then .start else .startSlow)
  if w1.st.wedged then ({ sim with w := w1 }, .hung)
  else if setup ≠ 0 ∧ !cfg.syncDial ∧ 0 < cfg.dialDeadlineMs ∧ cfg.dialDeadlineMs ≤ setup then
    -- the request gives up on its dial and returns; the set-up goes on and completes with nobody to own the connection
    let sim := { sim with w := w1 }
    let sim := deliverUntil cfg sim (t0 + cfg.dialDeadlineMs) false (sim.pending.length + 1)
    let w := stepW cfg (stepW cfg (stepW cfg sim.w .dialGiveUp) .ret) (.dialDone k)
    ({ sim with w := w, now := t0 + cfg.dialDeadlineMs }, .done (.timeout k) cfg.dialDeadlineMs)
  else
    let sim := { sim with w := w1 }
    -- answers to earlier requests that arrive while the connection is being set up go to the handler registered last
    let sim := if setup = 0 then sim
               else
                 let sim := deliverUntil cfg sim (t0 + setup) false (sim.pending.length + 1)
                 { sim with w := stepW cfg sim.w (.dialDone k), now := t0 + setup }
    let tw := t0 + setup
    let tEnd := tw + min delay cfg.timeoutMs
    let late := List.replicate copies (tw + delay, k)
    -- earlier answers that arrive while this request waits
    let sim := deliverUntil cfg sim tEnd true (sim.pending.length + 1)
    let sim :=
      if sim.w.st.cur.isNone then sim                                      -- completed by someone else's answer
      else if delay < cfg.timeoutMs then
        { sim with w := repeatAnswer cfg (stepW cfg sim.w (.answer k)) k (copies - 1), now := tEnd }
      else { sim with w := stepW cfg sim.w .timeout, now := tEnd, pending := late ++ sim.pending }
    let sim := if sim.w.st.log.length > logLen ∧ delay < cfg.timeoutMs ∧ sim.now < tEnd
               then { sim with pending := late ++ sim.pending } else sim
    let sim := { sim with w := stepW cfg sim.w .ret }
    match sim.w.st.log.head? with
    | some o => (sim, .done o (sim.now - t0))
    | none => (sim, .hung)

end Chf.DiamClient
