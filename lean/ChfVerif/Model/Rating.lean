import ChfVerif.Model.Abmf
/-
  Model of pkg/rf/rating.go : buildTaffif, handleSUR, and of the CHF's reading of the tariff
  (internal/sbi/processor/converged_charging.go : getUnitCost).
-/
namespace Chf.Rating
open Chf.Abmf (parseInt64)

/-- `strings.Index(s, ".")` -/
def dotPos : Bytes → Option Nat
  | [] => none
  | b :: r => if b = 46 then some 0 else match dotPos r with
    | some n => some (n + 1)
    | none => none

def removeDots (s : Bytes) : Bytes := s.filter (· ≠ 46)

/-- `buildTaffif`: (Value-Digits, Exponent) of the Unit-Cost -/
def buildTariff (s : Bytes) : Int × Int :=
  match dotPos s with
  | none => ((parseInt64 s).getD 0, 0)
  | some p => ((parseInt64 (removeDots s)).getD 0, (s.length : Int) - p - 1)

/-- `uint32(math.Pow10(e))` as compiled for amd64 (float64 → int64 → low 32 bits; the int64
    conversion of a float ≥ 2^63 yields the minimum int64, whose low 32 bits are 0) -/
def pow10u32 (e : Int) : Nat :=
  if e < 0 then 0 else if e ≤ 18 then (10 ^ e.toNat) % 4294967296 else 0

/-- `uint32(x)` of an int64 -/
def u32 (i : Int) : Nat := (i % 4294967296).toNat

/-- the rating server's unit cost: `Unsigned32(ValueDigits) * Unsigned32(Pow10(Exponent))` -/
def serverUnitCost (t : Int × Int) : Nat := (u32 t.1 * pow10u32 t.2) % 4294967296

/-- the CHF's `getUnitCost` on the received tariff -/
def chfUnitCost (digits exp : Int) : Nat := (u32 digits * pow10u32 exp) % 4294967296

structure Tariff where
  ue : Bytes
  rg : Nat
  unitCost : Bytes
deriving DecidableEq, Repr, Inhabited

def findCost : List Tariff → Bytes → Nat → Option Bytes
  | [], _, _ => none
  | a :: r, ue, rg => if a.ue = ue ∧ a.rg = rg then some a.unitCost else findCost r ue rg

structure SUR where
  sess : Bytes
  subType : Nat
  subData : Bytes
  rg : Nat
  reqSub : Nat       -- 0 AOC, 1 RESERVE, 2 DEBIT, 3 RELEASE
  consumed : Nat     -- ConsumedUnits (Unsigned32)
  quota : Nat        -- MonetaryQuota (Unsigned32)
deriving DecidableEq, Repr, Inhabited

inductive Reply
  | noAnswer
  | answer (sess : Bytes) (digits exp : Int) (allowed price : Nat)
deriving DecidableEq, Repr, Inhabited

def subscriberId (c : SUR) : Bytes := if c.subType = 1 then Chf.Abmf.imsiPrefix ++ c.subData else []

/-- allowed units and price for a unit cost -/
def rate (cost : Nat) (c : SUR) : Nat × Nat :=
  if c.reqSub = 2 then (0, (c.consumed * cost) % 4294967296)
  else if c.reqSub = 1 then
    if cost = 0 then (0, 0)
    else (c.quota / cost, ((c.quota / cost) * cost) % 4294967296)
  else (0, 0)

def handleSUR (st : List Tariff) (c : SUR) : Reply :=
  match findCost st (subscriberId c) c.rg with
  | none => .noAnswer
  | some s =>
    let t := buildTariff s
    match rate (serverUnitCost t) c with
    | (allowed, price) => .answer c.sess t.1 t.2 allowed price

end Chf.Rating
