import ChfVerif.Model.Abmf
import ChfVerif.Model.Rating
/-
  Model of the converged-charging processor:
    internal/sbi/processor/converged_charging.go  (ChargingDataCreate / Update / Release,
      sessionChargingReservation, getUnitCost, NotifyRecharge)
    internal/sbi/processor/cdr.go                 (OpenCDR, UpdateCDR, CloseCDR)
    internal/sbi/api_convergedcharging.go         (RechargePut path-parameter handling)
    internal/context                              (subscriber pool, session map)
  composed with the account-balance and rating server models exactly where the code sends a
  CCR / SUR.  Fixed-width arithmetic is explicit (`u32`, `wrap64`).  A Diameter request that gets
  no answer is the Go code's error path (`continue`).
-/
namespace Chf.Charging
open Chf
open Chf.Abmf (wrap64 toI64 toU64)

def u32 (i : Int) : Nat := (i % 4294967296).toNat

structure Container where
  qmi : Nat            -- 0 absent, 1 ONLINE_CHARGING, 2 OFFLINE_CHARGING, 3 QUOTA_MANAGEMENT_SUSPENDED
  total : Int
  up : Int
  down : Int
  ssu : Int
  lsn : Int
deriving DecidableEq, Repr, Inhabited

structure Usage where
  rg : Int
  req : Option Int     -- requestedUnit.totalVolume; none = member absent
  upf : Bytes
  cs : List Container
deriving DecidableEq, Repr, Inhabited

/-- trigger codes: 0 FINAL, 1 VOLUME_LIMIT(immediate), 2 QUOTA_THRESHOLD, 3 MAX_NUMBER_OF_CHANGES…,
    4 MANAGEMENT_INTERVENTION, 5 other -/
structure Req where
  supi : Bytes
  nf : Option Bytes    -- nfConsumerIdentification.nFName; none = no consumer identification the CHF accepts: the member is absent,
                       -- or (for a session) the name has a path separator `/` (the driver maps such creates to none)
  cid : Int
  seq : Int
  uri : Bool           -- a notifyUri was given
  one : Bool
  trigs : List Nat
  usages : List Usage
  bad : Bool := false  -- OpenCDR refuses the request: malformed nFPLMNID (mcc not 3 / mnc not 2-3 octets) or
                       -- pDUSessionChargingInformation without pduSessionInformation.networkSlicingInfo.sNSSAI
deriving DecidableEq, Repr, Inhabited

/-- money state of one rating group of one subscriber
    (ReservedQuota / RatingType / UnitCost / AcctRequestNum entries) -/
structure RgState where
  reserved : Int := 0
  mode : Nat := 1      -- 1 RESERVE, 2 DEBIT
  cost : Nat := 0
  reqNum : Nat := 0
deriving DecidableEq, Repr, Inhabited

/-- one (rating group, usage containers) entry of a record's ListOfMultipleUnitUsage -/
structure RecUsage where
  rg : Int
  upf : Bytes
  cs : List Container
deriving DecidableEq, Repr, Inhabited

structure Record where
  sid : Option Bytes
  subData : Bytes
  cid : Int
  nf : Option Bytes
  lsn : Nat
  rsn : Option Nat
  cause : Nat
  usage : List RecUsage
deriving DecidableEq, Repr, Inhabited

structure Ue where
  supi : Bytes
  groups : List (Int × RgState) := []     -- keyed by rating group, first-seen order
  notifyUri : Bool := false
  cdr : List (Bytes × Nat) := []           -- session reference ↦ index into `records`
  records : List Record := []
deriving DecidableEq, Repr, Inhabited

structure State where
  accts : Abmf.Store := []
  tariffs : List Rating.Tariff := []
  ues : List Ue := []
  localSeq : Nat := 0          -- LocalRecordSequenceNumber
  sessionSeq : Nat := 0        -- ChargingSessionSequence
  abmfUp : Bool := true        -- the account-balance server can be reached (false: every CCR ends in the error path)
  rfUp : Bool := true          -- the rating server can be reached (false: every SUR ends in the error path)
deriving Repr, Inhabited

structure Mui where
  rg : Int
  granted : Nat
  fui : Bool
deriving DecidableEq, Repr, Inhabited

structure Resp where
  status : Nat
  loc : Option Bytes := none
  seq : Option Int := none
  muis : List Mui := []
  notif : List (Bytes × Int) := []      -- (subscriber whose registered URI was notified, rating group)
deriving DecidableEq, Repr, Inhabited

inductive Op
  | create (r : Req)
  | update (sid : Bytes) (r : Req)
  | release (sid : Bytes) (r : Req)
  | recharge (info : Bytes)
  | credit (supi : Bytes) (rg : Nat) (amt : Int)   -- the operator credits the account in the database
deriving Repr, Inhabited

/-! ### helpers -/

def imsiPrefix : Bytes := [105, 109, 115, 105, 45]

def hasImsiPrefix (s : Bytes) : Bool := s.take 5 == imsiPrefix

/-- an octet a header line cannot carry: the C0 control characters and DEL (the session reference, which contains the SUPI and the
    consumer's name, is handed to the consumer in the Location header) -/
def isControl (b : Nat) : Bool := decide (b < 32) || b == 127

/-- `NewCHFUe`: the SUPI starts with "imsi-", can name the subscriber's CDR file /tmp/<supi>.cdr (no path separator, no NUL
    octet, at most 255 octets with the extension) and can be part of a session reference (no control character) -/
def supiAccepted (s : Bytes) : Bool :=
  hasImsiPrefix s && !s.contains 47 && !s.contains 0 && decide (s.length + 4 ≤ 255) && !s.any isControl

def findUe : List Ue → Bytes → Option Ue
  | [], _ => none
  | u :: r, s => if u.supi = s then some u else findUe r s

def putUe : List Ue → Ue → List Ue
  | [], u => [u]
  | x :: r, u => if x.supi = u.supi then u :: r else x :: putUe r u

def getRg : List (Int × RgState) → Int → Option RgState
  | [], _ => none
  | (k, v) :: r, rg => if k = rg then some v else getRg r rg

def setRg : List (Int × RgState) → Int → RgState → List (Int × RgState)
  | [], rg, v => [(rg, v)]
  | (k, x) :: r, rg, v => if k = rg then (k, v) :: r else (k, x) :: setRg r rg v

def lookupSid : List (Bytes × Nat) → Bytes → Option Nat
  | [], _ => none
  | (k, v) :: r, s => if k = s then some v else lookupSid r s

def setSid : List (Bytes × Nat) → Bytes → Nat → List (Bytes × Nat)
  | [], s, v => [(s, v)]
  | (k, x) :: r, s, v => if k = s then (k, v) :: r else (k, x) :: setSid r s v

def removeSid : List (Bytes × Nat) → Bytes → List (Bytes × Nat)
  | [], _ => []
  | (k, x) :: r, s => if k = s then r else (k, x) :: removeSid r s

/-- `strconv.FormatUint(n, 10)` -/
def decimalFuel : Nat → Nat → Bytes
  | 0, n => [48 + n % 10]
  | f + 1, n => if n < 10 then [48 + n] else decimalFuel f (n / 10) ++ [48 + n % 10]

def decimal (n : Nat) : Bytes := decimalFuel n n

/-! ### credit control for one reported usage (one iteration of the loop in sessionChargingReservation) -/

def isOnline (c : Container) : Bool := c.qmi = 1

/-- `totalUsedUnit += uint32(usedUnit.TotalVolume)` over the online containers -/
def totalUsed : List Container → Nat
  | [] => 0
  | c :: r => if isOnline c then (u32 c.total + totalUsed r) % 4294967296 else totalUsed r

def anyOnline (cs : List Container) : Bool := cs.any isOnline

/-- value of `partialRecord` after the trigger loop of one online container -/
def partialAfter (trigs : List Nat) (p : Bool) : Bool :=
  match trigs.getLast? with
  | none => p
  | some t => t ≠ 0

structure Env where
  accts : Abmf.Store
  tariffs : List Rating.Tariff

def subData (supi : Bytes) : Bytes := supi.drop 5

def mkSUR (supi : Bytes) (rg : Int) (reqSub consumed quota : Nat) : Rating.SUR :=
  { sess := [], subType := 1, subData := subData supi, rg := u32 rg, reqSub := reqSub, consumed := consumed,
    quota := quota }

/-- `getUnitCost`: a RESERVE service-usage request with quota 0; no answer ⇒ 1 -/
def getUnitCost (e : Env) (supi : Bytes) (rg : Int) : Nat :=
  match Rating.handleSUR e.tariffs (mkSUR supi rg 1 0 0) with
  | .answer _ d x _ _ => Rating.chfUnitCost d x
  | .noAnswer => 1

/-- result of the credit control of one usage: new account store, new rating-group state,
    the unit information for the response (none when the code `continue`s) -/
structure RgOut where
  accts : Abmf.Store
  st : RgState
  mui : Option Mui

def mkCCR (supi : Bytes) (rg : Int) (st : RgState) (reqType action rsu usu : Nat) : Abmf.CCR :=
  { sess := [], reqType := reqType, reqNum := st.reqNum % 4294967296, action := action, subType := 1,
    subData := subData supi, rg := u32 rg, rsu := rsu, usu := usu }

def sendCCR (accts : Abmf.Store) (supi : Bytes) (rg : Int) (st : RgState) (reqType action rsu usu : Nat) :
    Abmf.Store × Abmf.Reply :=
  Abmf.handleCCR accts (mkCCR supi rg st reqType action rsu usu)

/-- `uint32(unitUsage.RequestedUnit.TotalVolume)`, 0 when requestedUnit is absent -/
def reqVolOf (u : Usage) : Nat :=
  match u.req with
  | some r => u32 r
  | none => 0

def reserveBranch (e : Env) (supi : Bytes) (u : Usage) (st : RgState) (used : Nat) : RgOut :=
  let cost1 := getUnitCost e supi u.rg
  let usedQ := (used * cost1) % 4294967296
  let reqVol := reqVolOf u
  let reqQ := (reqVol * cost1) % 4294967296
  let reserved1 := wrap64 (st.reserved - (usedQ : Int))
  let st1 : RgState := { st with cost := cost1, reserved := reserved1 }
  -- reservation top-up
  let afterCcr : Option (Abmf.Store × RgState × Bool) :=
    if reserved1 < (reqQ : Int) then
      let ask := toU64 ((reqQ : Int) - reserved1)
      match sendCCR e.accts supi u.rg st1 2 0 ask 0 with
      | (_, .noAnswer) => none
      | (a', .answer _ _ _ g f) =>
        let gi : Nat := g.getD 0
        let st2 : RgState := { st1 with reserved := wrap64 (reserved1 + toI64 gi),
                                        mode := if f then 2 else st1.mode }
        some (a', st2, f)
    else some (e.accts, st1, false)
  match afterCcr with
  | none => { accts := e.accts, st := st1, mui := none }
  | some (a', st2, fui) =>
    let avail : Nat :=
      if st2.reserved < (reqQ : Int) then (if st2.reserved > 0 then st2.reserved.toNat else 0) else reqQ
    match Rating.handleSUR e.tariffs (mkSUR supi u.rg 1 0 (avail % 4294967296)) with
    | .noAnswer => { accts := a', st := st2, mui := none }
    | .answer _ _ _ allowed _ =>
      let cost2 := getUnitCost e supi u.rg
      let granted := min allowed reqVol
      { accts := a', st := { st2 with cost := cost2, reqNum := st2.reqNum + 1 },
        mui := some { rg := u.rg, granted := granted, fui := fui } }

def debitBranch (e : Env) (supi : Bytes) (u : Usage) (st : RgState) (used : Nat) : RgOut :=
  match Rating.handleSUR e.tariffs (mkSUR supi u.rg 2 used 0) with
  | .noAnswer => { accts := e.accts, st := st, mui := none }
  | .answer _ _ _ _ price =>
    if (price : Int) < st.reserved then
      let st1 : RgState := { st with mode := 1 }
      match sendCCR e.accts supi u.rg st1 0 1 (toU64 (st.reserved - price)) 0 with
      | (_, .noAnswer) => { accts := e.accts, st := st1, mui := none }
      | (a', .answer _ _ _ _ _) =>
        { accts := a', st := { st1 with reserved := 0, reqNum := st1.reqNum + 1 },
          mui := some { rg := u.rg, granted := 0, fui := false } }
    else
      match sendCCR e.accts supi u.rg st 3 0 0 (toU64 ((price : Int) - st.reserved)) with
      | (_, .noAnswer) => { accts := e.accts, st := st, mui := none }
      | (a', .answer _ _ _ _ _) =>
        { accts := a', st := { st with reserved := 0, reqNum := st.reqNum + 1 },
          mui := some { rg := u.rg, granted := 0, fui := false } }

/-- state of the rating group as the usage loop sees it: registered on first sight (reserve mode);
    FINAL among the request's triggers switches an online rating group to debit mode -/
def entryState (trigs : List Nat) (groups : List (Int × RgState)) (u : Usage) : RgState :=
  let st0 : RgState := match getRg groups u.rg with
    | some s => s
    | none => {}
  if anyOnline u.cs ∧ trigs.any (· = 0) then { st0 with mode := 2 } else st0

/-- one usage: group registration, trigger handling, then the reserve or debit branch -/
def usageStep (e : Env) (supi : Bytes) (trigs : List Nat) (groups : List (Int × RgState)) (u : Usage) :
    Abmf.Store × List (Int × RgState) × Option Mui :=
  let st1 := entryState trigs groups u
  if ¬ anyOnline u.cs then (e.accts, setRg groups u.rg st1, none)
  else
    let out := if st1.mode = 1 then reserveBranch e supi u st1 (totalUsed u.cs)
               else if st1.mode = 2 then debitBranch e supi u st1 (totalUsed u.cs)
               else { accts := e.accts, st := st1, mui := some { rg := u.rg, granted := 0, fui := false } }
    (out.accts, setRg groups u.rg out.st, out.mui)

/-- the loop over `chargingData.MultipleUnitUsage` -/
def creditControl (tariffs : List Rating.Tariff) (supi : Bytes) (trigs : List Nat) :
    Abmf.Store → List (Int × RgState) → List Usage → Abmf.Store × List (Int × RgState) × List Mui
  | accts, groups, [] => (accts, groups, [])
  | accts, groups, u :: r =>
    match usageStep { accts := accts, tariffs := tariffs } supi trigs groups u with
    | (a1, g1, m) =>
      match creditControl tariffs supi trigs a1 g1 r with
      | (a2, g2, ms) => (a2, g2, (match m with | some x => [x] | none => []) ++ ms)

/-- `partialRecord` as returned by sessionChargingReservation -/
def partialOf (trigs : List Nat) : List Usage → Bool → Bool
  | [], p => p
  | u :: r, p => partialOf trigs r (if anyOnline u.cs then partialAfter trigs p else p)

/-! ### CDR bookkeeping -/

def toRecUsage (us : List Usage) : List RecUsage := us.map fun u => { rg := u.rg, upf := u.upf, cs := u.cs }

def appendUsage (r : Record) (us : List Usage) : Record := { r with usage := r.usage ++ toRecUsage us }

def setRecord (rs : List Record) (i : Nat) (r : Record) : List Record := rs.set i r

/-- the record-size guard of ChargingDataUpdate (BER sizes) is a parameter of the step function -/
abbrev SplitGuard := Record → List Usage → Bool

/-! ### reachability of the two servers

  `SendAccountDebitRequest` / `SendServiceUsageRequest` return an error when the server cannot be dialled or
  does not answer within 5 s; the processor then takes the same path as for a request the server leaves
  unanswered.  As seen from the CHF an unreachable server is therefore one that knows no account / no tariff:
  every request gets `noAnswer` (`handleCCR_unreachable`, `handleSUR_unreachable` in Lemmas/ChargingOutage) and
  nothing is written to the store. -/

/-- the accounts the CHF's credit-control requests can reach -/
def seenAccts (s : State) : Abmf.Store := if s.abmfUp then s.accts else []

/-- the tariffs the CHF's service-usage requests can reach -/
def seenTariffs (s : State) : List Rating.Tariff := if s.rfUp then s.tariffs else []

/-- the account store after credit control: requests that reached no server changed nothing -/
def acctsAfter (s : State) (a : Abmf.Store) : Abmf.Store := if s.abmfUp then a else s.accts

/-! ### operations -/

def sessionId (supi nf : Bytes) (n : Nat) : Bytes := supi ++ nf ++ [45] ++ decimal n

def create (s : State) (r : Req) : State × Resp :=
  match r.nf with
  | none => (s, { status := 400 })
  | some nf =>
    if ¬ supiAccepted r.supi then (s, { status := 400 })
    else
      let ue : Ue := match findUe s.ues r.supi with
        | some u => u
        | none => { supi := r.supi }
      -- OpenCDR refuses the request (400) after NewCHFUe has stored the subscriber context and - for a session-based
      -- create - the sequence number has been taken: the number is NOT handed back (another create may have taken
      -- the next one meanwhile).  The notification address is registered only by an accepted create.
      if r.bad then
        ({ s with ues := putUe s.ues ue,
                  sessionSeq := if r.one then s.sessionSeq else s.sessionSeq + 1 }, { status := 400 })
      else
      let (sid, sseq) := if r.one then (([] : Bytes), s.sessionSeq)
                         else (sessionId r.supi nf s.sessionSeq, s.sessionSeq + 1)
      let rec0 : Record :=
        { sid := if sid = [] then none else some sid, subData := subData r.supi, cid := r.cid,
          nf := if nf = [] then none else some nf, lsn := s.localSeq + 1, rsn := none, cause := 0, usage := [] }
      let rec1 := appendUsage rec0 r.usages
      -- a one-time event opens no session: its (closed) record is kept, the session map is not touched, and the
      -- empty reference of its Location designates nothing
      -- the address given with the create is registered; a create that gives none leaves the one registered before in place
      let ue' : Ue := { ue with notifyUri := ue.notifyUri || r.uri,
                                cdr := if r.one then ue.cdr else setSid ue.cdr sid ue.records.length,
                                records := ue.records ++ [rec1] }
      ({ s with ues := putUe s.ues ue', localSeq := s.localSeq + 1, sessionSeq := sseq },
       { status := 201, loc := some sid, seq := some r.seq })

def update (guard : SplitGuard) (s : State) (sid : Bytes) (r : Req) : State × Resp :=
  match findUe s.ues r.supi with
  | none => (s, { status := 400 })
  | some ue =>
    match lookupSid ue.cdr sid with
    | none => (s, { status := 404 })
    | some idx =>
      match creditControl (seenTariffs s) r.supi r.trigs (seenAccts s) ue.groups r.usages with
      | (accts', groups', muis) =>
        let partialRec := partialOf r.trigs r.usages false
        let cur : Record := ue.records.getD idx default
        -- record split
        let (records1, cdr1, idx1) :=
          if guard cur r.usages then
            (ue.records ++ [{ cur with usage := [] }], setSid ue.cdr sid ue.records.length, ue.records.length)
          else (ue.records, ue.cdr, idx)
        let cur1 : Record := records1.getD idx1 default
        let cur2 := appendUsage cur1 r.usages
        let cur3 : Record := if partialRec then { cur2 with cause := 1, rsn := some 1 } else cur2
        let ue' : Ue := { ue with groups := groups', cdr := cdr1, records := setRecord records1 idx1 cur3 }
        ({ s with accts := acctsAfter s accts', ues := putUe s.ues ue' }, { status := 200, seq := some r.seq, muis := muis })

def release (s : State) (sid : Bytes) (r : Req) : State × Resp :=
  match findUe s.ues r.supi with
  | none => (s, { status := 400 })
  | some ue =>
    match lookupSid ue.cdr sid with
    | none => (s, { status := 404 })
    | some idx =>
      match creditControl (seenTariffs s) r.supi r.trigs (seenAccts s) ue.groups r.usages with
      | (accts', groups', _) =>
        let cur : Record := ue.records.getD idx default
        let cur2 : Record := { appendUsage cur r.usages with cause := 0 }
        let ue' : Ue := { ue with groups := groups', records := setRecord ue.records idx cur2,
                                  cdr := removeSid ue.cdr sid }
        ({ s with accts := acctsAfter s accts', ues := putUe s.ues ue' }, { status := 204 })

/-- split a byte string on '_' -/
def splitUnderscore : Bytes → List Bytes
  | [] => [[]]
  | b :: r =>
    match splitUnderscore r with
    | [] => [[]]
    | h :: t => if b = 95 then [] :: h :: t else (b :: h) :: t

/-- `strconv.ParseInt(s, 10, 32)` -/
def parseInt32 (s : Bytes) : Option Int :=
  match Abmf.parseInt64 s with
  | some i => if -2147483648 ≤ i ∧ i ≤ 2147483647 then some i else none
  | none => none

def recharge (s : State) (info : Bytes) : State × Resp :=
  match splitUnderscore info with
  | [ueId, rgStr] =>
    (match parseInt32 rgStr with
     | none => (s, { status := 400 })
     | some rg =>
       match findUe s.ues ueId with
       | none => (s, { status := 404 })
       | some ue =>
         let st0 : RgState := match getRg ue.groups rg with
           | some x => x
           | none => {}
         let ue' : Ue := { ue with groups := setRg ue.groups rg { st0 with mode := 1 } }
         ({ s with ues := putUe s.ues ue' },
          { status := 204, notif := if ue.notifyUri then [(ue.supi, rg)] else [] }))
  | _ => (s, { status := 400 })

/-- an external credit: the account document's quota is raised in the database (no CHF code involved) -/
def creditAcct (s : State) (supi : Bytes) (rg : Nat) (amt : Int) : State :=
  match Abmf.find s.accts supi rg with
  | some q =>
    (match q.parse with
     | some v => { s with accts := Abmf.put s.accts supi rg (.num (v + amt)) }
     | none => s)
  | none => s

/-- the servers become (un)reachable: nothing of the CHF's or the servers' state changes -/
def setReach (s : State) (abmfUp rfUp : Bool) : State := { s with abmfUp := abmfUp, rfUp := rfUp }

def step (guard : SplitGuard) (s : State) : Op → State × Resp
  | .create r => create s r
  | .update sid r => update guard s sid r
  | .release sid r => release s sid r
  | .recharge info => recharge s info
  | .credit supi rg amt => (creditAcct s supi rg amt, { status := 0 })

def run (guard : SplitGuard) (s : State) : List Op → State
  | [] => s
  | op :: r => run guard (step guard s op).1 r

end Chf.Charging
