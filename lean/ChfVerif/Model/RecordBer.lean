import ChfVerif.Model.Charging
import ChfVerif.Model.Ber
import ChfVerif.Model.CdrDump
import ChfVerif.Gen.Schema
/-
  From the charging model's records to the octets of the subscriber's CDR file.

  Mirrors what the code does between the bookkeeping and the file:
    internal/sbi/processor/cdr.go        OpenCDR (which members of cdrType.ChargingRecord are filled, with what),
                                         UpdateCDR (ListOfMultipleUnitUsage appended), CloseCDR, dumpCdrFile
    cdr/cdrConvert/sbiToCdr.go           MultiUnitUsageToCdr / UsedUnitContainerToCdr
    internal/sbi/processor/converged_charging.go   the size guard of ChargingDataUpdate
        (`len(cdrBytes)+len(chgDataBytes) > math.MaxUint16`, both marshalled with "explicit,choice")
  composed with the BER encoder model (`Ber.marshal`) on the REGENERATED schema type `Gen.T_CHFRecord`.

  `recordVal` builds the Go value `&cdrType.CHFRecord{Present: 1, ChargingFunctionRecord: &chfCdr}` member by
  member, positionally; that the positions are those of the schema in the working tree is the obligation
  `shape_ok` of Props/C03 (decide over Gen/Schema).  What the charging model does not carry (the recording NF's
  id, the record opening time, the consumer's node functionality) is a parameter (`RecEnv`).
-/
namespace Chf.RecordBer
open Chf Chf.Ber Chf.Charging

def Vals.ofList : List Val → Vals
  | [] => .nil
  | v :: r => .cons v (Vals.ofList r)

/-- what OpenCDR takes from outside the charging model -/
structure RecEnv where
  nfId : Bytes            -- self.NfId  (RecordingNetworkFunctionID)
  openTime : Bytes        -- TimeStampToCdr(time.Now()): 9 octets
  functionality : Int     -- NetworkFunctionality of the consumer (SMF = 1 …; 0 for an unknown name)
deriving Repr, Inhabited

def nils : Nat → List Val
  | 0 => []
  | n + 1 => Val.nil :: nils n

/-- `UsedUnitContainerToCdr`: tagNum 4 total, 5 uplink, 6 downlink, 7 service specific units, 9 local sequence number -/
def containerVal (c : Container) : Val :=
  .struct (Vals.ofList ([.nil, .nil, .nil, .nil, .int c.total, .int c.up, .int c.down, .int c.ssu, .nil, .int c.lsn] ++ nils 6))

def containerVals : List Container → Vals
  | [] => .nil
  | c :: r => .cons (containerVal c) (containerVals r)

/-- `MultiUnitUsageToCdr`: rating group, the containers (a non-nil slice, even when empty), the UPF id (a non-nil
    pointer, even when the string is empty), no multihomed PDU address -/
def usageVal (u : RecUsage) : Val :=
  .struct (Vals.ofList [.int u.rg, .list (containerVals u.cs), .str u.upf, .nil])

def usageVals : List RecUsage → Vals
  | [] => .nil
  | u :: r => .cons (usageVal u) (usageVals r)

/-- ListOfMultipleUnitUsage: nil until usage is appended -/
def usageListVal (us : List RecUsage) : Val :=
  match us with
  | [] => .nil
  | _ => .list (usageVals us)

def optBytes : Option Bytes → Val
  | some b => .bytes b
  | none => .nil

def optStr : Option Bytes → Val
  | some b => .str b
  | none => .nil

/-- cdrType.ChargingRecord as OpenCDR / UpdateCDR / CloseCDR leave it (28 members, tagNum 0..27) -/
def chargingRecordVal (e : RecEnv) (r : Record) : Val :=
  .struct (Vals.ofList ([
    .int 200,                                                         -- 0 RecordType
    .str e.nfId,                                                      -- 1 RecordingNetworkFunctionID
    .struct (Vals.ofList [.int 1, .str r.subData]),                   -- 2 SubscriberIdentifier (END_USER_IMSI)
    .struct (Vals.ofList [.int e.functionality, optStr r.nf, .nil, .nil, .nil, .nil]),   -- 3 NFunctionConsumerInformation
    .nil,                                                             -- 4 Triggers (TriggersToCdr returns none)
    usageListVal r.usage,                                             -- 5 ListOfMultipleUnitUsage
    .bytes e.openTime,                                                -- 6 RecordOpeningTime
    .int 0,                                                           -- 7 Duration
    (match r.rsn with | some n => .int n | none => .nil),             -- 8 RecordSequenceNumber
    .int r.cause,                                                     -- 9 CauseForRecClosing
    .nil,                                                             -- 10 Diagnostics
    .int r.lsn,                                                       -- 11 LocalRecordSequenceNumber
    .nil, .nil, .nil, .nil,                                           -- 12..15
    optBytes r.sid]                                                   -- 16 ChargingSessionIdentifier
    ++ nils 10 ++                                                     -- 17..26
    [.int r.cid]))                                                    -- 27 ChargingID

/-- `cdrType.CHFRecord{Present: 1, ChargingFunctionRecord: &chfCdr}` -/
def recordVal (e : RecEnv) (r : Record) : Val := .choice 1 (.cons (chargingRecordVal e r) .nil)

/-- parseFieldParameters("explicit,choice"): no tag number, so `explicit` has no effect at the top level -/
def topParams : Params := { explicit := true }

/-- `asn.BerMarshalWithParams(&record, "explicit,choice")` on a record of the subscriber -/
def recordBytes (e : RecEnv) (r : Record) : Res Bytes := marshal (.ptr (.ptr Gen.T_CHFRecord)) topParams (recordVal e r)

/-- `asn.BerMarshalWithParams(&cdrMultiUnitUsage, "explicit,choice")` on the request's converted usage -/
def chgBytesR (us : List RecUsage) : Res Bytes :=
  marshal (.ptr (.slice Gen.T_MultipleUnitUsage)) topParams (.list (usageVals us))

def chgBytes (us : List Usage) : Res Bytes := chgBytesR (toRecUsage us)

def lenOf : Res Bytes → Nat
  | .ok b => b.length
  | _ => 0

/-- the size guard of ChargingDataUpdate as the code computes it (chgDataBytes stays empty when the request
    carries no usage) -/
def berGuardR (e : RecEnv) (cur : Record) (us : List RecUsage) : Bool :=
  CdrDump.startsNewRecord (lenOf (recordBytes e cur)) (if us.isEmpty then 0 else lenOf (chgBytesR us))

def berGuard (e : RecEnv) : SplitGuard := fun cur us => berGuardR e cur (toRecUsage us)

end Chf.RecordBer
