import ChfVerif.Model.Charging
import ChfVerif.Model.Ber
import ChfVerif.Model.CdrDump
import ChfVerif.Gen.Schema
/-
  From the charging model's records to the octets of the subscriber's CDR file.

  Mirrors what the code does between the bookkeeping and the file:
    internal/sbi/processor/cdr.go        OpenCDR (which members of cdrType.ChargingRecord are filled, with what),
                                         UpdateCDR (ListOfMultipleUnitUsage appended), CloseCDR, dumpCdrFile
    cdr/cdrConvert/sbiToCdr.go           MultiUnitUsageToCdr / UsedUnitContainerToCdr
    internal/sbi/processor/converged_charging.go   the size guard of ChargingDataUpdate
        (`len(cdrBytes)+len(chgDataBytes) > math.MaxUint16`, both marshalled with "explicit,choice")
  composed with the BER encoder model (`Ber.marshal`) on the REGENERATED schema type `Gen.T_CHFRecord`.

  `recordVal` builds the Go value `&cdrType.CHFRecord{Present: 1, ChargingFunctionRecord: &chfCdr}` member by
  member, positionally; that the positions are those of the schema in the working tree is the obligation
  `shape_ok` of Props/C03 (decide over Gen/Schema).  What the charging model does not carry (the recording NF's
  id, the record opening time, the consumer's node functionality) is a parameter (`RecEnv`).
-/
namespace Chf.RecordBer
open Chf Chf.Ber Chf.Charging

def Vals.ofList : List Val → Vals
  | [] => .nil
  | v :: r => .cons v (Vals.ofList r)

/-- PDUSessionChargingInformation as OpenCDR fills it -/
structure Pdu where
  chargingId : Int
  sessionId : Int
  sst : Int
  sd : Bytes
  dnn : Bytes
deriving Repr, Inhabited, DecidableEq

/-- what OpenCDR takes from outside the charging model -/
structure RecEnv where
  nfId : Bytes            -- self.NfId  (RecordingNetworkFunctionID)
  openTime : Bytes        -- TimeStampToCdr(time.Now()): 9 octets
  functionality : Int     -- NetworkFunctionality of the consumer (SMF = 1 …; 0 for an unknown name)
  v4 : Option Bytes := none        -- nFIPv4Address, when not empty  (IPAddress: iPTextV4Address)
  plmn : Option Bytes := none      -- PlmnIdToCdr(nFPLMNID), when given
  v6 : Option Bytes := none        -- nFIPv6Address, when not empty  (IPAddress: iPTextV6Address)
  fqdn : Option Bytes := none      -- nFFqdn, when not empty        (NodeAddress: domainName)
  pdu : Option Pdu := none         -- pDUSessionChargingInformation
  svcSpec : Option Bytes := none   -- serviceSpecificationInfo, when not empty
  registration : Bool := false     -- registrationChargingInformation given (message type: initial)
  emptyList : Bool := false        -- ListOfMultipleUnitUsage is an empty but non-nil slice (a record started by the
                                   -- size guard of ChargingDataUpdate that no usage was appended to yet)
deriving Repr, Inhabited

def nils : Nat → List Val
  | 0 => []
  | n + 1 => Val.nil :: nils n

/-- `UsedUnitContainerToCdr`: tagNum 4 total, 5 uplink, 6 downlink, 7 service specific units, 9 local sequence number -/
def containerVal (c : Container) : Val :=
  .struct (Vals.ofList ([.nil, .nil, .nil, .nil, .int c.total, .int c.up, .int c.down, .int c.ssu, .nil, .int c.lsn] ++ nils 6))

def containerVals : List Container → Vals
  | [] => .nil
  | c :: r => .cons (containerVal c) (containerVals r)

/-- `MultiUnitUsageToCdr`: rating group, the containers (a non-nil slice, even when empty), the UPF id (a non-nil
    pointer, even when the string is empty), no multihomed PDU address -/
def usageVal (u : RecUsage) : Val :=
  .struct (Vals.ofList [.int u.rg, .list (containerVals u.cs), .str u.upf, .nil])

def usageVals : List RecUsage → Vals
  | [] => .nil
  | u :: r => .cons (usageVal u) (usageVals r)

/-- ListOfMultipleUnitUsage: nil until usage is appended; `[]cdrType.MultipleUnitUsage{}` (an empty SEQUENCE OF is
    written) in a record the size guard has just started -/
def usageListVal (emptyList : Bool) (us : List RecUsage) : Val :=
  match us with
  | [] => if emptyList then .list .nil else .nil
  | _ => .list (usageVals us)

def optBytes : Option Bytes → Val
  | some b => .bytes b
  | none => .nil

/-- RecordSequenceNumber *int64 -/
def rsnVal : Option Nat → Val
  | some n => .int n
  | none => .nil

def optStr : Option Bytes → Val
  | some b => .str b
  | none => .nil

/-- an IPAddress CHOICE holding a text address: Present 3 = iPTextV4Address (tag 2), Present 4 = iPTextV6Address (tag 3) -/
def ipTextVal (present : Int) : Option Bytes → Val
  | some a => .choice present (Vals.ofList ((nils (present.toNat - 1)) ++ [.str a] ++ nils (5 - present.toNat)))
  | none => .nil

/-- a NodeAddress CHOICE holding a domain name (Present 2, tag 1) -/
def fqdnVal : Option Bytes → Val
  | some a => .choice 2 (Vals.ofList [.nil, .str a])
  | none => .nil

/-- cdrType.PDUSessionChargingInformation (37 members): charging id [0], session id [6], S-NSSAI [7], DNN [13] -/
def pduVal : Option Pdu → Val
  | some d => .struct (Vals.ofList ([.int d.chargingId] ++ nils 5 ++ [.int d.sessionId,
      .struct (Vals.ofList [.int d.sst, .bytes d.sd])] ++ nils 5 ++ [.str d.dnn] ++ nils 23))
  | none => .nil

/-- cdrType.RegistrationChargingInformation (23 members): message type initial (0), nothing else -/
def regVal (b : Bool) : Val :=
  if b then .struct (Vals.ofList ([.int 0] ++ nils 22)) else .nil

/-- cdrType.NetworkFunctionInformation: functionality, name, IPv4 address, PLMN identifier, IPv6 address, FQDN -/
def nfiVal (e : RecEnv) (r : Record) : Val :=
  .struct (Vals.ofList [.int e.functionality, optStr r.nf, ipTextVal 3 e.v4, optBytes e.plmn, ipTextVal 4 e.v6, fqdnVal e.fqdn])

/-- cdrType.ChargingRecord as OpenCDR / UpdateCDR / CloseCDR leave it (28 members, tagNum 0..27) -/
def chargingRecordVal (e : RecEnv) (r : Record) : Val :=
  .struct (Vals.ofList ([
    .int 200,                                                         -- 0 RecordType
    .str e.nfId,                                                      -- 1 RecordingNetworkFunctionID
    .struct (Vals.ofList [.int 1, .str r.subData]),                   -- 2 SubscriberIdentifier (END_USER_IMSI)
    nfiVal e r,                                                       -- 3 NFunctionConsumerInformation
    .nil,                                                             -- 4 Triggers (TriggersToCdr returns none)
    usageListVal e.emptyList r.usage,                                          -- 5 ListOfMultipleUnitUsage
    .bytes e.openTime,                                                -- 6 RecordOpeningTime
    .int 0,                                                           -- 7 Duration
    rsnVal r.rsn,                                                     -- 8 RecordSequenceNumber
    .int r.cause,                                                     -- 9 CauseForRecClosing
    .nil,                                                             -- 10 Diagnostics
    .int r.lsn,                                                       -- 11 LocalRecordSequenceNumber
    .nil,                                                             -- 12 RecordExtensions
    pduVal e.pdu,                                                     -- 13 PDUSessionChargingInformation
    .nil, .nil,                                                       -- 14, 15
    optBytes r.sid,                                                   -- 16 ChargingSessionIdentifier
    optBytes e.svcSpec,                                               -- 17 ServiceSpecificationInformation
    .nil,                                                             -- 18
    regVal e.registration]                                            -- 19 RegistrationChargingInformation
    ++ nils 7 ++                                                      -- 20..26
    [.int r.cid]))                                                    -- 27 ChargingID

/-! ### OpenCDR: from the create request to what the record holds (cdr.go:17-219, sbiToCdr.go: PlmnIdToCdr) -/

/-- the members of the create request OpenCDR reads besides the session identity -/
structure Consumer where
  functionality : Bytes := []            -- nfConsumerIdentification.nodeFunctionality
  v4 : Bytes := []                        -- nFIPv4Address
  v6 : Bytes := []                        -- nFIPv6Address
  fqdn : Bytes := []                      -- nFFqdn
  plmn : Option (Bytes × Bytes) := none   -- nFPLMNID: mcc, mnc
  svcSpec : Bytes := []                   -- serviceSpecificationInfo
  registration : Bool := false            -- registrationChargingInformation present
  pdu : Option (Option Pdu) := none       -- pDUSessionChargingInformation: `some none` = present but without
                                          -- pduSessionInformation.networkSlicingInfo.sNSSAI
deriving Repr, Inhabited

def asciiBytes (s : String) : Bytes := s.toList.map (·.toNat)

/-- the `switch chargingData.NfConsumerIdentification.NodeFunctionality` of OpenCDR with the values of
    cdrType.NetworkFunctionality (TS 32.298: cHF 0, sMF 1, aMF 2, sMSF 3, sGW 4, iSMF 5, ePDG 6, cEF 7, nEF 8,
    pGWCSMF 9, mnSProducer 10); any other name leaves the zero value -/
def functionalityCode (s : Bytes) : Int :=
  if s = asciiBytes "SMF" then 1 else if s = asciiBytes "AMF" then 2 else if s = asciiBytes "SMSF" then 3
  else if s = asciiBytes "PGW_C_SMF" then 9 else if s = asciiBytes "NEF" then 8 else if s = asciiBytes "SGW" then 4
  else if s = asciiBytes "I_SMF" then 5 else if s = asciiBytes "ePDG" then 6 else if s = asciiBytes "CEF" then 7
  else if s = asciiBytes "MnS_Producer" then 10 else 0

/-- one character of encoding/hex.DecodeString -/
def hexNibble (c : Nat) : Option Nat :=
  if 48 ≤ c ∧ c ≤ 57 then some (c - 48) else if 97 ≤ c ∧ c ≤ 102 then some (c - 87)
  else if 65 ≤ c ∧ c ≤ 70 then some (c - 55) else none

def hexPair (a b : Nat) : Option Nat :=
  match hexNibble a, hexNibble b with
  | some x, some y => some (x * 16 + y)
  | _, _ => none

/-- `PlmnIdToCdr`: MCC digit 2, MCC digit 1, MNC digit 3 (or 'f'), MCC digit 3, MNC digit 2, MNC digit 1 as hexadecimal
    text, decoded; anything that is not 3 + 2/3 hexadecimal characters gives the empty value -/
def plmnIdToCdr (mcc mnc : Bytes) : Bytes :=
  match mcc, mnc with
  | [a, b, c], [d, e] =>
    (match hexPair b a, hexPair 102 c, hexPair e d with
     | some x, some y, some z => [x, y, z]
     | _, _, _ => [])
  | [a, b, c], [d, e, f] =>
    (match hexPair b a, hexPair d c, hexPair f e with
     | some x, some y, some z => [x, y, z]
     | _, _, _ => [])
  | _, _ => []

def nonEmpty (b : Bytes) : Option Bytes := if b = [] then none else some b

/-- the checks at the top of OpenCDR: a malformed nFPLMNID or an incomplete pDUSessionChargingInformation is refused -/
def openAccepts (c : Consumer) : Bool :=
  (match c.plmn with
   | some (mcc, mnc) => mcc.length = 3 ∧ (mnc.length = 2 ∨ mnc.length = 3)
   | none => true) &&
  (match c.pdu with
   | some none => false
   | _ => true)

def openEnv (nfId openTime : Bytes) (c : Consumer) : RecEnv :=
  { nfId := nfId, openTime := openTime, functionality := functionalityCode c.functionality,
    v4 := nonEmpty c.v4, v6 := nonEmpty c.v6, fqdn := nonEmpty c.fqdn,
    plmn := c.plmn.map fun (mcc, mnc) => plmnIdToCdr mcc mnc,
    svcSpec := nonEmpty c.svcSpec, registration := c.registration,
    pdu := match c.pdu with | some (some d) => some d | _ => none }

/-- `cdrType.CHFRecord{Present: 1, ChargingFunctionRecord: &chfCdr}` -/
def recordVal (e : RecEnv) (r : Record) : Val := .choice 1 (.cons (chargingRecordVal e r) .nil)

/-- parseFieldParameters("explicit,choice"): no tag number, so `explicit` has no effect at the top level -/
def topParams : Params := { explicit := true }

/-- `asn.BerMarshalWithParams(&record, "explicit,choice")` on a record of the subscriber -/
def recordBytes (e : RecEnv) (r : Record) : Res Bytes := marshal (.ptr (.ptr Gen.T_CHFRecord)) topParams (recordVal e r)

/-- `asn.BerMarshalWithParams(&cdrMultiUnitUsage, "explicit,choice")` on the request's converted usage -/
def chgBytesR (us : List RecUsage) : Res Bytes :=
  marshal (.ptr (.slice Gen.T_MultipleUnitUsage)) topParams (.list (usageVals us))

def chgBytes (us : List Usage) : Res Bytes := chgBytesR (toRecUsage us)

def lenOf : Res Bytes → Nat
  | .ok b => b.length
  | _ => 0

/-- the size guard of ChargingDataUpdate as the code computes it (chgDataBytes stays empty when the request
    carries no usage) -/
def berGuardR (e : RecEnv) (cur : Record) (us : List RecUsage) : Bool :=
  CdrDump.startsNewRecord (lenOf (recordBytes e cur)) (if us.isEmpty then 0 else lenOf (chgBytesR us))

def berGuard (e : RecEnv) : SplitGuard := fun cur us => berGuardR e cur (toRecUsage us)

end Chf.RecordBer
