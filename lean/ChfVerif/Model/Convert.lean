import ChfVerif.Model.Basic
/-
  Model of cdr/cdrConvert/sbiToCdr.go : TimeStampToCdr (TS 32.298 BCD timestamp YYMMDDhhmmssShhmm).
  Input: the civil fields of a Go time.Time and its zone offset in seconds (as `t.Zone()` returns it).
-/
namespace Chf.Convert

structure Civil where
  year : Nat       -- full year, e.g. 2026
  month : Nat
  day : Nat
  hour : Nat
  minute : Nat
  second : Nat
  tz : Int         -- seconds east of UTC
deriving DecidableEq, Repr, Inhabited

/-- `(byte(x/10) << 4) | byte(x%10)` for x < 100 -/
def bcd (x : Nat) : Nat := ((x / 10 % 256) * 16 % 256) ||| (x % 10)

def timeStampToCdr (t : Civil) : Bytes :=
  let az : Nat := t.tz.natAbs
  [ ((t.year % 100 / 10 % 256) * 16 % 256) ||| (t.year % 10 % 256),
    bcd t.month, bcd t.day, bcd t.hour, bcd t.minute, bcd t.second,
    (if t.tz ≥ 0 then 43 else 45),
    bcd (az / 3600), bcd (az % 3600 / 60) ]

/-! Specification side: reading a TS 32.298 timestamp (independent of the encoder) -/

def unbcd (b : Nat) : Nat := (b / 16) * 10 + b % 16

structure Stamp where
  yy : Nat
  month : Nat
  day : Nat
  hour : Nat
  minute : Nat
  second : Nat
  tzMinutes : Int    -- offset east of UTC in minutes
deriving DecidableEq, Repr, Inhabited

def readTimeStamp : Bytes → Option Stamp
  | [y, mo, d, h, mi, s, sg, zh, zm] =>
    if sg = 43 then some ⟨unbcd y, unbcd mo, unbcd d, unbcd h, unbcd mi, unbcd s, (unbcd zh * 60 + unbcd zm : Nat)⟩
    else if sg = 45 then some ⟨unbcd y, unbcd mo, unbcd d, unbcd h, unbcd mi, unbcd s, -((unbcd zh * 60 + unbcd zm : Nat) : Int)⟩
    else none
  | _ => none

end Chf.Convert
