/-
  Model of internal/sbi/server.go : newRouter and of how gin serves a request through a
  handler chain (group middleware first; `c.Abort()` stops the chain).
-/
namespace Chf.Router

/-- a route as gin reports it at registration time -/
structure RouteInfo where
  method : String
  path : String
  group : String         -- the service prefix constant the path starts with ("" if none)
  chain : Nat            -- number of handlers in the route's chain
deriving DecidableEq, Repr

/-- syntactic facts of one `case` of the switch in newRouter -/
structure CaseFact where
  name : String          -- service name the case matches
  pfx : String           -- prefix of the route group
  useBefore : Bool       -- `group.Use(…)` precedes `applyRoutes(group, …)`
  authInUse : Bool       -- the middleware given to Use performs the authorization check
deriving DecidableEq, Repr

inductive MW
  | auth      -- RouterAuthorizationCheck.Check: 401 + Abort unless the token verifies
  | handler   -- the API function
deriving DecidableEq, Repr

structure Route where
  method : String
  path : String
  chain : List MW
deriving DecidableEq, Repr

/-- gin semantics: middleware added with `Use` applies to routes registered afterwards only -/
def caseRoutes (f : CaseFact) (rs : List (String × String)) : List Route :=
  rs.map fun mp => { method := mp.1, path := f.pfx ++ mp.2,
                     chain := if f.useBefore && f.authInUse then [.auth, .handler] else [.handler] }

def findCase (facts : List CaseFact) (name : String) : Option CaseFact := facts.find? (·.name = name)

/-- newRouter: one group per recognised service name, in list order; unknown names are skipped -/
def newRouter (facts : List CaseFact) (routesOf : String → List (String × String)) : List String → List Route
  | [] => []
  | name :: r =>
    (match findCase facts name with
     | some f => caseRoutes f (routesOf name)
     | none => []) ++ newRouter facts routesOf r

structure Outcome where
  status : Nat
  handlerRan : Bool
deriving DecidableEq, Repr

/-- serving a request through a chain; `authorized` = the bearer token verifies against the NRF certificate -/
def serveChain (authorized : Bool) : List MW → Outcome
  | [] => ⟨404, false⟩
  | .auth :: r => if authorized then serveChain authorized r else ⟨401, false⟩
  | .handler :: _ => ⟨200, true⟩

end Chf.Router

/-!
  ## The authorization middleware and the decision function, path by path

  `Gen/Routes.lean` carries every control-flow path of
  `util.(*RouterAuthorizationCheck).Check` (the gin middleware) and of
  `context.(*CHFContext).AuthorizationCheck` (the decision) as the go/ast extractor unfolds them
  (harness/cmd/authast.go).  The definitions below give those paths a meaning:
  conditions the model does not interpret are resolved by an adversary (they may depend on anything:
  earlier requests, the clock, the state of the request's context), `opaque` steps are never assumed harmless.
-/
namespace Chf.Router

/-- one step on a control-flow path of `Check` -/
inductive Ev
  | authCall                              -- `err := <NFContext>.AuthorizationCheck(<the request's Authorization header>, rac.serviceName)`
  | errNonNil (holds : Bool)              -- a branch on `err != nil` / `err == nil`; `holds` = err is non-nil on this path
  | cond (src : String) (taken : Bool)    -- a branch on any other condition
  | respond (status : Nat)                -- c.JSON(status, …) and relatives
  | abort                                 -- c.Abort()
  | next                                  -- c.Next(): the rest of the chain runs now
  | call (src : String)                   -- any other call (logging excluded)
  | unread (src : String)                 -- a statement the extractor does not interpret
deriving DecidableEq, Repr

/-- what a run of the middleware leaves behind -/
structure MwState where
  errKnown : Bool := false        -- `err` holds the result of AuthorizationCheck for this request
  status : Option Nat := none     -- first status written
  aborted : Bool := false
  ranRest : Bool := false         -- c.Next() was called before the chain was aborted
  unread : Bool := false
deriving DecidableEq, Repr

def MwState.step (s : MwState) : Ev → MwState
  | .authCall => { s with errKnown := true }
  | .errNonNil _ => s
  | .cond _ _ => s
  | .respond st => { s with status := s.status.orElse fun _ => some st }
  | .abort => { s with aborted := true }
  | .next => { s with ranRest := s.ranRest || !s.aborted }
  | .call _ => s
  | .unread _ => { s with errKnown := false, unread := true }

def runPath (p : List Ev) : MwState := p.foldl MwState.step {}

/-- Can the path be taken by a request for which AuthorizationCheck answers `ok` (nil error)?
    Only branches on the error variable, after it was assigned from AuthorizationCheck, are decided by `ok`;
    every other condition is the adversary's. -/
def feasibleFrom (ok : Bool) : Bool → List Ev → Bool
  | _, [] => true
  | _, .authCall :: r => feasibleFrom ok true r
  | known, .errNonNil holds :: r => (!known || holds == !ok) && feasibleFrom ok known r
  | _, .unread _ :: r => feasibleFrom ok false r
  | known, _ :: r => feasibleFrom ok known r

def feasible (ok : Bool) (p : List Ev) : Bool := feasibleFrom ok false p

/-- the path is a rejection: 401 written, chain aborted, nothing of the rest ran, nothing uninterpreted -/
def rejects (p : List Ev) : Bool :=
  let s := runPath p
  s.status == some 401 && s.aborted && !s.ranRest && !s.unread

/-- a path is safe when an unauthorised request can only take it as a rejection -/
def pathSafe (p : List Ev) : Bool := !feasible false p || rejects p

/-- gin serves the chain; the auth middleware behaves as the path `p` of `Check` says -/
def serveVia (p : List Ev) : List MW → Outcome
  | [] => ⟨404, false⟩
  | .auth :: r =>
    let s := runPath p
    if s.aborted && !s.ranRest then ⟨s.status.getD 200, false⟩
    else ⟨(serveVia p r).status, (serveVia p r).handlerRan⟩
  | .handler :: _ => ⟨200, true⟩

/-! ### the decision function -/

inductive AEv
  | notRequired (taken : Bool)            -- `if !c.OAuth2Required`
  | cond (src : String) (taken : Bool)
  | verifyAssign                          -- `err := oauth.VerifyOAuth(token, string(serviceName), c.NrfCertPem)`
  | call (src : String)
  | unread (src : String)
deriving DecidableEq, Repr

inductive ARet
  | nil                                   -- `return nil`
  | verify                                -- `return oauth.VerifyOAuth(token, string(serviceName), c.NrfCertPem)`
  | errVar                                -- `return err`, err assigned by `verifyAssign`
  | other (src : String)
deriving DecidableEq, Repr

structure APath where
  evs : List AEv
  ret : ARet
deriving DecidableEq, Repr

/-- everything the decision could consult besides the request and the two configuration fields:
    earlier requests, caches, the clock …  It resolves uninterpreted conditions and results. -/
abbrev Adversary := String → Bool

/-- is the path taken?  `required` = OAuth2Required -/
def APath.taken (adv : Adversary) (required : Bool) (p : APath) : Bool :=
  p.evs.all fun
    | .notRequired t => t == !required
    | .cond src t => adv src == t
    | _ => true

def AEv.isUnread : AEv → Bool
  | .unread _ => true
  | _ => false

/-- does the path accept (return a nil error)?  `verifies` = oauth.VerifyOAuth accepts this request's header -/
def APath.accepts (adv : Adversary) (verifies : Bool) (p : APath) : Bool :=
  match p.ret with
  | .nil => true
  | .verify => verifies
  | .errVar => if p.evs.contains .verifyAssign && !p.evs.any AEv.isUnread
               then verifies else adv "err"
  | .other src => adv src

/-- the decision of AuthorizationCheck: the first path that is taken decides (none: no path applies) -/
def decision (paths : List APath) (adv : Adversary) (required verifies : Bool) : Option Bool :=
  (paths.find? (·.taken adv required)).map (·.accepts adv verifies)

/-- a path of the decision function that looks at nothing but OAuth2Required and the verification of the header -/
def APath.pure (p : APath) : Bool :=
  p.evs.all (fun e => match e with
    | .notRequired _ => true
    | .verifyAssign => true
    | _ => false) &&
  (match p.ret with
   | .nil => p.evs.contains (.notRequired true)
   | .verify => true
   | .errVar => p.evs.contains .verifyAssign
   | .other _ => false)

end Chf.Router
