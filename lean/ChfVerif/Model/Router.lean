/-
  Model of internal/sbi/server.go : newRouter and of how gin serves a request through a
  handler chain (group middleware first; `c.Abort()` stops the chain).
-/
namespace Chf.Router

/-- a route as gin reports it at registration time -/
structure RouteInfo where
  method : String
  path : String
  group : String         -- the service prefix constant the path starts with ("" if none)
  chain : Nat            -- number of handlers in the route's chain
deriving DecidableEq, Repr

/-- syntactic facts of one `case` of the switch in newRouter -/
structure CaseFact where
  name : String          -- service name the case matches
  pfx : String           -- prefix of the route group
  useBefore : Bool       -- `group.Use(…)` precedes `applyRoutes(group, …)`
  authInUse : Bool       -- the middleware given to Use performs the authorization check
deriving DecidableEq, Repr

inductive MW
  | auth      -- RouterAuthorizationCheck.Check: 401 + Abort unless the token verifies
  | handler   -- the API function
deriving DecidableEq, Repr

structure Route where
  method : String
  path : String
  chain : List MW
deriving DecidableEq, Repr

/-- gin semantics: middleware added with `Use` applies to routes registered afterwards only -/
def caseRoutes (f : CaseFact) (rs : List (String × String)) : List Route :=
  rs.map fun mp => { method := mp.1, path := f.pfx ++ mp.2,
                     chain := if f.useBefore && f.authInUse then [.auth, .handler] else [.handler] }

def findCase (facts : List CaseFact) (name : String) : Option CaseFact := facts.find? (·.name = name)

/-- newRouter: one group per recognised service name, in list order; unknown names are skipped -/
def newRouter (facts : List CaseFact) (routesOf : String → List (String × String)) : List String → List Route
  | [] => []
  | name :: r =>
    (match findCase facts name with
     | some f => caseRoutes f (routesOf name)
     | none => []) ++ newRouter facts routesOf r

structure Outcome where
  status : Nat
  handlerRan : Bool
deriving DecidableEq, Repr

/-- serving a request through a chain; `authorized` = the bearer token verifies against the NRF certificate -/
def serveChain (authorized : Bool) : List MW → Outcome
  | [] => ⟨404, false⟩
  | .auth :: r => if authorized then serveChain authorized r else ⟨401, false⟩
  | .handler :: _ => ⟨200, true⟩

end Chf.Router
