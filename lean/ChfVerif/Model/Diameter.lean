import ChfVerif.Model.Basic
/-
  Tables and (modelled) library behaviour for the Diameter side: dictionary entries, struct-tag
  look-ups, and the basic AVP data encodings of RFC 6733 §4.2 as go-diameter implements them.
-/
namespace Chf.Diameter

structure AvpDef where
  dict : String
  app : Nat
  name : String
  code : Nat
  vendor : Nat
  type : String
deriving DecidableEq, Repr

structure TagLookup where
  struct : String
  field : String
  avp : String
  goKind : String
  found : Bool
  code : Nat
  vendor : Nat
  dictType : String
deriving DecidableEq, Repr

/-- a Go field of kind `g` can carry an AVP whose dictionary data type is `d` without loss -/
def compatible (g d : String) : Bool :=
  g == d || (g == "Grouped" && d == "Grouped") ||
  -- go-diameter converts between the string-like types byte for byte
  ((g == "UTF8String" || g == "OctetString" || g == "DiameterIdentity" || g == "DiameterURI") &&
   (d == "UTF8String" || d == "OctetString" || d == "DiameterIdentity" || d == "DiameterURI"))

/-! ### basic AVP data formats (big-endian, two's complement; OctetString padded to 4 octets) -/

def encU32 (x : Nat) : Bytes := be32 (x % 4294967296)
def decU32 : Bytes → Option Nat
  | [a, b, c, d] => some (rd32 a b c d)
  | _ => none

def be64 (x : Nat) : Bytes := be32 (x / 4294967296 % 4294967296) ++ be32 (x % 4294967296)
def encU64 (x : Nat) : Bytes := be64 (x % 18446744073709551616)
def decU64 : Bytes → Option Nat
  | [a, b, c, d, e, f, g, h] => some (rd32 a b c d * 4294967296 + rd32 e f g h)
  | _ => none

def encI32 (x : Int) : Bytes := encU32 (x % 4294967296).toNat
def decI32 (b : Bytes) : Option Int :=
  match decU32 b with
  | some u => some (if u ≥ 2147483648 then (u : Int) - 4294967296 else u)
  | none => none

def encI64 (x : Int) : Bytes := encU64 (x % 18446744073709551616).toNat
def decI64 (b : Bytes) : Option Int :=
  match decU64 b with
  | some u => some (if u ≥ 9223372036854775808 then (u : Int) - 18446744073709551616 else u)
  | none => none

/-- padding go-diameter reports for an OctetString of `n` octets -/
def padding (n : Nat) : Nat := (4 - n % 4) % 4

end Chf.Diameter
