/-
  Lock discipline of the request handlers (C11: a failed or rejected request never leaves the subscriber
  blocked).  A function body is abstracted to the statements that matter for one mutex; `exec` runs it with an
  arbitrary choice of which risky statements panic, running the deferred calls on return and on panic (gin's
  recovery middleware catches the panic afterwards, so the process goes on with whatever state the mutex is
  left in).  `fatal` stands for Go's "sync: unlock of unlocked mutex" and for locking a mutex the goroutine
  already holds.
-/
namespace Chf.LockDiscipline

structure LockSite where
  site : String
  kind : Nat          -- 0 deferNext, 1 deferGuarded, 2 straight, 3 other
  calls : Nat         -- calls before the unlock is guaranteed
  rawUnlocks : Nat    -- unguarded Unlocks elsewhere in the function
  relocks : Nat       -- further Locks of the same mutex in the function
  peerWaits : Nat := 0  -- calls that wait for the NF consumer's answer while the mutex is held
deriving DecidableEq, Repr

def LockSite.ok (s : LockSite) : Bool := decide (s.kind ≤ 2) && s.calls == 0 && s.rawUnlocks == 0 && s.relocks == 0

/-- the mutex is never held across a request to the consumer: how long a subscriber stays locked does not depend
    on how fast (or whether) its consumer answers a notification -/
def LockSite.prompt (s : LockSite) : Bool := s.peerWaits == 0

inductive Stmt where
  | lock | setFlag | deferUnlock | deferGuarded | guardedUnlock | unlock
  | safe          -- cannot panic: simple assignment, closure definition
  | risky         -- may panic: a call, an index, a dereference
  | ret
deriving DecidableEq, Repr

inductive Deferred where
  | unlock | guarded
deriving DecidableEq, Repr

structure M where
  held : Bool := false
  flag : Bool := false
  fatal : Bool := false
  deferred : List Deferred := []
deriving Repr

def doUnlock (m : M) : M := if m.held then { m with held := false } else { m with fatal := true }
def doGuarded (m : M) : M := if m.flag then doUnlock { m with flag := false } else m

def runDeferred : List Deferred → M → M
  | [], m => m
  | .unlock :: r, m => runDeferred r (doUnlock m)
  | .guarded :: r, m => runDeferred r (doGuarded m)

def finish (m : M) : M := runDeferred m.deferred { m with deferred := [] }

/-- `panics i` says whether the risky statement at position `i` panics -/
def exec : List Stmt → Nat → (Nat → Bool) → M → M
  | [], _, _, m => finish m
  | s :: rest, i, panics, m =>
    match s with
    | .lock => if m.held then { m with fatal := true } else exec rest (i + 1) panics { m with held := true }
    | .setFlag => exec rest (i + 1) panics { m with flag := true }
    | .deferUnlock => exec rest (i + 1) panics { m with deferred := .unlock :: m.deferred }
    | .deferGuarded => exec rest (i + 1) panics { m with deferred := .guarded :: m.deferred }
    | .guardedUnlock => exec rest (i + 1) panics (doGuarded m)
    | .unlock => exec rest (i + 1) panics (doUnlock m)
    | .safe => exec rest (i + 1) panics m
    | .risky => if panics i then finish m else exec rest (i + 1) panics m
    | .ret => finish m

/-- statements the rest of a function may consist of, given that the extractor found no further Lock and no
    unguarded Unlock of the mutex in it -/
def plain : Stmt → Bool
  | .safe | .risky | .ret => true
  | _ => false

def plainOrGuarded : Stmt → Bool
  | .safe | .risky | .ret | .guardedUnlock => true
  | _ => false

/-- the abstract body of a function around a lock site of the given kind -/
def bodyOf (kind : Nat) (rest : List Stmt) : List Stmt :=
  match kind with
  | 0 => [.lock, .deferUnlock] ++ rest
  | 1 => [.lock, .setFlag, .safe, .deferGuarded] ++ rest
  | _ => [.lock, .safe, .safe, .unlock] ++ rest

def restOK (kind : Nat) (rest : List Stmt) : Bool :=
  if kind = 1 then rest.all plainOrGuarded else rest.all plain

end Chf.LockDiscipline
