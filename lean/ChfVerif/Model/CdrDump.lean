import ChfVerif.Model.CdrFile
/-
  Model of internal/sbi/processor/cdr.go : dumpCdrFile — what is handed to CDRFile.Encoding for a list of
  BER-marshalled records.  Go's fixed-width conversions are explicit: `uint16(len(cdrBytes))`,
  `uint32(len(records))`, and the uint32 accumulation of FileLength.
-/
namespace Chf.CdrDump
open Chf Chf.CdrFile

def zeroTs : TimeStamp := { month := 0, date := 0, hour := 0, minute := 0, sign := 0, hdev := 0, mdev := 0 }

/-- `cdrHdr.CdrLength = uint16(len(cdrBytes)); cdrHdr.DataRecordFormat = BasicEncodingRules` -/
def dumpCdr (r : Bytes) : Cdr :=
  { hdr := { cdrLength := r.length % 65536, rel := 0, ver := 0, fmt := 1, ts := 0, relExt := 0 }, bytes := r }

/-- `FileLength += uint32(len(cdrBytes)) + 4` for every record, starting from HeaderLength -/
def fileLength : List Bytes → Nat → Nat
  | [], acc => acc
  | r :: rs, acc => fileLength rs ((acc + (r.length % 4294967296 + 4) % 4294967296) % 4294967296)

def dumpHeader (recs : List Bytes) : FileHeader :=
  { fileLength := fileLength recs 52, headerLength := 52, highRel := 0, highVer := 0, lowRel := 0, lowVer := 0,
    openTs := zeroTs, lastTs := zeroTs, numCdrs := recs.length % 4294967296, fileSeq := 0, closure := 0,
    ip := List.replicate 20 0, lost := 0, lenFilter := 0, filter := [], lenExt := 0, ext := [],
    highExt := 0, lowExt := 0 }

def dumpFile (recs : List Bytes) : File := { hdr := dumpHeader recs, cdrs := recs.map dumpCdr }

/-- the octets written to /tmp/<supi>.cdr -/
def dumpBytes (recs : List Bytes) : Bytes := encodeFile (dumpFile recs)

/-- the update path's guard: `len(cdrBytes)+len(chgDataBytes) > math.MaxUint16` -/
def startsNewRecord (cdrLen chgLen : Nat) : Bool := cdrLen + chgLen > 65535

end Chf.CdrDump
