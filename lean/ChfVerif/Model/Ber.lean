import ChfVerif.Model.Basic
/-
  Model of cdr/asn : the reflection-driven BER codec (ber_marshal.go : makeField / appendTagAndLen /
  int64Encoder / bitStringEncoder, ber_unmarshal.go : parseTagAndLength / ParseField, common.go).

  Types are described as `reflect` sees them after the codec's own naming conventions have been
  applied (first field `Value`/`List` = transparent wrapper, first field `Present` = CHOICE);
  the description of the 194 schema types is regenerated into Gen/Schema.lean.
  Values mirror Go values: a non-nil pointer is its pointee, `nil` is a nil pointer / nil slice.
  Go index and slice expressions are modelled by partial accessors: a run-time panic is the outcome
  `Res.panic`, an `error` return is `Res.err`.
-/
namespace Chf.Ber

structure Params where
  optional : Bool := false
  tagNumber : Option Nat := none
  explicit : Bool := false
  set : Bool := false
  openType : Bool := false
  stringType : Nat := 0
deriving DecidableEq, Repr, Inhabited

mutual
inductive Ty
  | bool
  | int (bits : Nat)        -- int / int64 (64) or int32 (32)
  | enum
  | octets
  | bits
  | null
  | oid
  | str (tag : Nat)         -- universal tag of the Go string type (12 UTF8String/string, 22 IA5String, 25 GraphicString)
  | ptr (t : Ty)
  | slice (t : Ty)
  | wrap (t : Ty)           -- struct whose first field is named Value or List
  | choice (alts : Fields)  -- struct whose first field is named Present
  | struct (fs : Fields)    -- any other struct
  | unsupported             -- kinds the codec has no encoding for
deriving Repr
inductive Fields
  | nil
  | cons (p : Params) (t : Ty) (rest : Fields)
deriving Repr
end

mutual
inductive Val
  | bool (b : Bool)
  | int (i : Int)
  | bytes (b : Bytes)                 -- OctetString / ObjectIdentifier
  | bits (b : Bytes) (n : Nat)        -- BitString{Bytes, BitLength}
  | str (b : Bytes)
  | null (b : Bool)                   -- asn.NULL
  | nil                               -- nil pointer / nil slice
  | list (vs : Vals)                  -- non-nil slice
  | choice (present : Int) (vs : Vals)  -- Present and the alternatives (fields 1..)
  | struct (vs : Vals)
deriving Repr
inductive Vals
  | nil
  | cons (v : Val) (rest : Vals)
deriving Repr
end

inductive Res (α : Type)
  | ok (a : α)
  | err
  | panic
deriving Repr

instance : Inhabited (Res α) := ⟨.err⟩

def Res.isErr : Res α → Bool
  | .err => true
  | _ => false

def Res.isOk : Res α → Bool
  | .ok _ => true
  | _ => false

/-! ### encoder -/

def Fields.length : Fields → Nat
  | .nil => 0
  | .cons _ _ r => r.length + 1

/-- number of content octets of the minimal two's-complement encoding (int64Encoder.Len) -/
def intLen (i : Int) (fuel : Nat := 8) : Nat :=
  match fuel with
  | 0 => 1
  | f + 1 => if i > 127 ∨ i < -128 then intLen (i / 256) f + 1 else 1

/-- int64Encoder.Encode: the low `n` octets of the two's-complement value, most significant first -/
def intOctets (i : Int) : Nat → Bytes
  | 0 => []
  | n + 1 => intOctets (i / 256) n ++ [(i % 256).toNat]

def intBytes (i : Int) : Bytes := intOctets i (intLen i)

/-- base-128 digits of a tag number > 30 (all but the last with the high bit set) -/
def tagDigits (t : Nat) (fuel : Nat := 10) : Bytes :=
  match fuel with
  | 0 => [t % 128]
  | f + 1 => if t > 127 then tagDigits (t / 128) f ++ [t % 128] else [t % 128]

def highTag (t : Nat) : Bytes :=
  let d := tagDigits t
  (d.dropLast.map (· + 128)) ++ [d.getLastD 0]

/-- octets of a length > 127: minimal big-endian -/
def lenDigits (l : Nat) (fuel : Nat := 8) : Bytes :=
  match fuel with
  | 0 => [l % 256]
  | f + 1 => if l > 255 then lenDigits (l / 256) f ++ [l % 256] else [l % 256]

/-- appendTagAndLen -/
def header (cls : Nat) (constructed : Bool) (tag len : Nat) : Bytes :=
  let first := cls * 64 + (if constructed then 32 else 0)
  (if tag ≤ 30 then [first + tag] else (first + 31) :: highTag tag) ++
  (if len ≤ 127 then [len] else (128 + (lenDigits len).length) :: lenDigits len)

def tlv (cls : Nat) (constructed : Bool) (tag : Nat) (content : Bytes) : Bytes :=
  header cls constructed tag content.length ++ content

/-- the tagging step at the end of makeField -/
def finish (p : Params) (constructed : Bool) (tag : Nat) (content : Bytes) : Bytes :=
  match p.tagNumber with
  | some n =>
    if p.explicit then tlv 2 true n (tlv 0 constructed tag content)
    else tlv 2 constructed n content
  | none => tlv 0 constructed tag content

def fieldAt : Fields → Nat → Option (Params × Ty)
  | .nil, _ => none
  | .cons p t _, 0 => some (p, t)
  | .cons _ _ r, n + 1 => fieldAt r n

def valAt : Vals → Nat → Option Val
  | .nil, _ => none
  | .cons v _, 0 => some v
  | .cons _ r, n + 1 => valAt r n

/-- kinds on which reflect's IsNil does not panic -/
def nilable : Ty → Bool
  | .ptr _ => true
  | .slice _ => true
  | .octets => true      -- asn.OctetString is a slice type
  | .oid => true
  | _ => false

def stringTagOf (p : Params) (dflt : Nat) : Nat := if p.stringType ≠ 0 then p.stringType else dflt

def seqTag (p : Params) : Nat := if p.set then 17 else 16

def isNilVal : Val → Bool
  | .nil => true
  | _ => false

mutual
/-- makeField followed by Encode -/
def marshal : Ty → Params → Val → Res Bytes
  | .ptr _, _, .nil => .err                             -- "cannot marshal nil value"
  | .ptr t, p, v => marshal t p v
  | .bits, p, .bits b n => .ok (finish p false 3 (((8 - n % 8) % 8) :: b))
  | .oid, _, _ => .err
  | .octets, p, .bytes b => .ok (finish p false 4 b)
  | .octets, p, .nil => .ok (finish p false 4 [])
  | .enum, p, .int i => .ok (finish p false 10 (intBytes i))
  | .null, p, .null _ => .ok (finish p false 5 [])
  | .bool, p, .bool b => .ok (finish p false 1 [if b then 255 else 0])
  | .int _, p, .int i => .ok (finish p false 2 (intBytes i))
  | .str dflt, p, .str b => .ok (finish p false (stringTagOf p dflt) b)
  | .wrap t, p, v => marshal t p v
  | .choice alts, p, .choice present vs =>
    if present ≤ 0 then .err
    else if present.toNat ≥ alts.length + 1 then .err
    else if p.openType then .err
    else
      match p.tagNumber with
      | none => marshalAlt alts vs (present.toNat - 1)
      | some n =>
        match marshalAlt alts vs (present.toNat - 1) with
        | .ok inner => .ok (tlv 2 true n inner)
        | .err => .err
        | .panic => .panic
  | .struct fs, p, .struct vs =>
    if fs.length = 0 then .err
    else
      match marshalFields fs vs with
      | .ok content => .ok (finish p true (seqTag p) content)
      | .err => .err
      | .panic => .panic
  | .slice t, p, .list vs =>
    match marshalElems t { p with tagNumber := none } vs with
    | .ok content => .ok (finish p true (seqTag p) content)
    | .err => .err
    | .panic => .panic
  | .slice _, p, .nil => .ok (finish p true (seqTag p) [])
  | _, _, _ => .err
termination_by t _ v => sizeOf t + sizeOf v

/-- the selected alternative of a CHOICE, marshalled with its own field parameters -/
def marshalAlt : Fields → Vals → Nat → Res Bytes
  | .cons p t _, .cons v _, 0 => marshal t p v
  | .cons _ _ r, .cons _ vs, n + 1 => marshalAlt r vs n
  | _, _, _ => .err
termination_by fs vs _ => sizeOf fs + sizeOf vs

/-- members of a SEQUENCE / SET in declaration order -/
def marshalFields : Fields → Vals → Res Bytes
  | .nil, _ => .ok []
  | .cons p t r, .cons v vs =>
    if p.optional ∧ ¬ nilable t then .panic            -- reflect: IsNil on a non-nilable kind
    else if p.optional ∧ isNilVal v then marshalFields r vs
    else if p.openType then .err
    else
      match marshal t p v, marshalFields r vs with
      | .ok a, .ok b => .ok (a ++ b)
      | .panic, _ => .panic
      | .err, _ => .err
      | .ok _, .err => .err
      | .ok _, .panic => .panic
  | .cons _ _ _, .nil => .err
termination_by fs vs => sizeOf fs + sizeOf vs

/-- elements of a SEQUENCE OF -/
def marshalElems : Ty → Params → Vals → Res Bytes
  | _, _, .nil => .ok []
  | t, p, .cons v vs =>
    match marshal t p v, marshalElems t p vs with
    | .ok a, .ok b => .ok (a ++ b)
    | .panic, _ => .panic
    | .err, _ => .err
    | .ok _, .err => .err
    | .ok _, .panic => .panic
termination_by t _ vs => sizeOf t + sizeOf vs
end

/-! ### decoder -/

structure Tal where
  cls : Nat
  constructed : Bool
  tag : Nat
  len : Nat
  off : Nat          -- size of the header
deriving DecidableEq, Repr

/-- Go index expression `b[i]` -/
def idx (b : Bytes) (i : Nat) : Res Nat :=
  match b[i]? with
  | some x => .ok x
  | none => .panic

/-- Go slice expression `b[i:j]` on a slice whose capacity is its length -/
def sub (b : Bytes) (i j : Nat) : Res Bytes :=
  if i ≤ j ∧ j ≤ b.length then .ok ((b.drop i).take (j - i)) else .panic

/-- Go slice expression `b[i:]` -/
def from_ (b : Bytes) (i : Nat) : Res Bytes := if i ≤ b.length then .ok (b.drop i) else .panic

/-- the high-tag-number loop: consumes octets from `off` while the continuation bit is set -/
def highTagLoop (b : Bytes) (off : Nat) (tag : Nat) : Nat → Nat × Nat
  | 0 => (tag, off)
  | fuel + 1 =>
    match b[off]? with
    | none => (tag, off)
    | some x =>
      let tag' := (tag * 128 + x % 128) % 18446744073709551616
      if x ≥ 128 then highTagLoop b (off + 1) tag' fuel else (tag', off + 1)

/-- `parseInt64` on the long-form length octets (unsigned accumulation) -/
def beValue : Bytes → Nat → Nat
  | [], acc => acc
  | x :: r, acc => beValue r (acc * 256 + x)

def parseTagAndLength (b : Bytes) : Res Tal :=
  if b.length = 0 then .err
  else
    match idx b 0 with
    | .ok b0 =>
      let cls := b0 / 64
      let constructed := (b0 / 32) % 2 = 1
      let (tag, off) : Nat × Nat :=
        if b0 % 32 ≠ 31 then (b0 % 32, 1) else highTagLoop b 1 0 b.length
      if b0 % 32 = 31 ∧ off > 10 then .err
      else if off ≥ b.length then .err
      else
        match idx b off with
        | .ok l0 =>
          if l0 ≤ 127 then .ok ⟨cls, constructed, tag, l0, off + 1⟩
          else
            let n := l0 % 128
            if n > 8 then .err
            else if n = 0 then .err
            else if off + 1 + n > b.length then .err
            else
              match sub b (off + 1) (off + 1 + n) with
              | .ok ds =>
                -- `val < 0 || val > int64(len(bytes))` on the int64 accumulated from at most 8 octets
                if beValue ds 0 ≥ 9223372036854775808 ∨ beValue ds 0 > b.length then .err
                else .ok ⟨cls, constructed, tag, beValue ds 0, off + 1 + n⟩
              | .err => .err
              | .panic => .panic
        | .err => .err
        | .panic => .panic
    | .err => .err
    | .panic => .panic

/-- two's-complement value of up to 8 content octets (parseSignedInt64) -/
def parseSigned (b : Bytes) : Res Int :=
  if b.length = 0 then .err
  else if b.length > 8 then .err
  else
    let u := beValue b 0
    .ok (if u ≥ 2 ^ (8 * b.length - 1) then (u : Int) - 2 ^ (8 * b.length) else u)

/-- reflect's SetInt into an integer of the given width -/
def truncInt (bits : Nat) (i : Int) : Int :=
  if bits ≥ 64 then i
  else
    let m := i % 2 ^ bits
    if m ≥ 2 ^ (bits - 1) then m - 2 ^ bits else m

def parseBitString (c : Bytes) : Res Val :=
  if c.length = 0 then .err
  else
    match idx c 0 with
    | .ok unused =>
      if unused > 7 ∨ (c.length = 1 ∧ unused ≠ 0) then .err
      else
        match from_ c 1 with
        | .ok r => .ok (.bits r ((c.length - 1) * 8 - unused))
        | .err => .err
        | .panic => .panic
    | .err => .err
    | .panic => .panic

/-- cut a run of TLVs into elements (class, tag number, the element's octets); every element is ≥ 2 octets -/
def splitTLVs (b : Bytes) : Nat → Res (List (Nat × Nat × Bytes))
  | 0 => if b.length = 0 then .ok [] else .err
  | fuel + 1 =>
    if b.length = 0 then .ok []
    else
      match parseTagAndLength b with
      | .ok t =>
        if t.off + t.len > b.length then .err
        else
          match sub b 0 (t.off + t.len), from_ b (t.off + t.len) with
          | .ok e, .ok rest =>
            (match splitTLVs rest fuel with
             | .ok es => .ok ((t.cls, t.tag, e) :: es)
             | .err => .err
             | .panic => .panic)
          | .panic, _ => .panic
          | _, .panic => .panic
          | _, _ => .err
      | .err => .err
      | .panic => .panic

def stripPtr : Ty → Ty
  | .ptr t => stripPtr t
  | t => t

def isChoiceTy (t : Ty) : Bool :=
  match stripPtr t with
  | .choice _ => true
  | _ => false

/-- the universal tag an untagged element decoded into the type must carry (none: any) -/
def expectedTag (p : Params) : Ty → Option Nat
  | .bits => some 3
  | .oid => some 6
  | .octets => some 4
  | .enum => some 10
  | .null => some 5
  | .bool => some 1
  | .int _ => some 2
  | .str d => some (stringTagOf p d)
  | .struct _ => some (seqTag p)
  | .slice _ => some (seqTag p)
  | _ => none

mutual
/-- choiceHasTag: the type (behind pointers) is a CHOICE one of whose alternatives is selected by the tag -/
def choiceHasTag : Ty → Nat → Bool
  | .ptr t, tag => choiceHasTag t tag
  | .choice alts, tag => altsHaveTag alts tag
  | _, _ => false
def altsHaveTag : Fields → Nat → Bool
  | .nil, _ => false
  | .cons p t r, tag =>
    (match p.tagNumber with
     | some n => n == tag
     | none => choiceHasTag t tag) || altsHaveTag r tag
end

/-- selection of a CHOICE alternative by the element's tag number -/
def altMatches (p : Params) (t : Ty) (tag : Nat) : Bool :=
  match p.tagNumber with
  | some n => n == tag
  | none => choiceHasTag t tag

/-- strip pointers and Value/List wrappers -/
def underlying : Ty → Ty
  | .ptr t => underlying t
  | .wrap t => underlying t
  | t => t

/-- matchMember: by tagNum when declared, otherwise by the universal tag of the member's type -/
def memberMatches (p : Params) (t : Ty) (cls tag : Nat) : Bool :=
  match p.tagNumber with
  | some n => n = tag
  | none => match expectedTag p (underlying t) with
    | some e => cls = 0 ∧ e = tag
    | none => false

mutual
/-- the zero value a field has before anything is decoded into it -/
def zeroVal : Ty → Val
  | .bool => .bool false
  | .int _ => .int 0
  | .enum => .int 0
  | .octets => .nil
  | .bits => .bits [] 0
  | .null => .null false
  | .oid => .nil
  | .str _ => .str []
  | .ptr _ => .nil
  | .slice _ => .nil
  | .wrap t => zeroVal t
  | .choice alts => .choice 0 (zeroVals alts)
  | .struct fs => .struct (zeroVals fs)
  | .unsupported => .nil
def zeroVals : Fields → Vals
  | .nil => .nil
  | .cons _ t r => .cons (zeroVal t) (zeroVals r)
end

def setAt : Vals → Nat → Val → Vals
  | .nil, _, _ => .nil
  | .cons _ r, 0, v => .cons v r
  | .cons x r, n + 1, v => .cons x (setAt r n v)

/-- the element carries the tag its type and parameters call for -/
def tagOk (t : Ty) (p : Params) (tal : Tal) : Bool :=
  match p.tagNumber with
  | some n => tal.cls = 2 ∧ tal.tag = n
  | none => match expectedTag p (stripPtr t) with
    | some e => tal.cls = 0 ∧ tal.tag = e
    | none => true

def needsUnwrap (t : Ty) (p : Params) : Bool := p.tagNumber.isSome && p.explicit && !isChoiceTy t

/-- EXPLICIT unwrapping: the element proper is the content of the context tag; it is parsed and checked again -/
def enterInner (t : Ty) (p : Params) (b : Bytes) (tal : Tal) : Res (Bytes × Params × Tal) :=
  match sub b tal.off (tal.off + tal.len) with
  | .ok inner =>
    (match parseTagAndLength inner with
     | .ok tal' =>
       if tal'.off + tal'.len > inner.length then .err
       else if tagOk t { p with tagNumber := none, explicit := false } tal' then
         .ok (inner.take (tal'.off + tal'.len), { p with tagNumber := none, explicit := false }, tal')
       else .err
     | .err => .err
     | .panic => .panic)
  | .err => .err
  | .panic => .panic

/-- header checks common to every ParseField invocation: parse the header, bound check, tag check,
    EXPLICIT unwrapping.  Returns the (possibly unwrapped) octets, parameters and header. -/
def enter (t : Ty) (p : Params) (b : Bytes) : Res (Bytes × Params × Tal) :=
  match parseTagAndLength b with
  | .ok tal =>
    if tal.off + tal.len > b.length then .err
    else if !tagOk t p tal then .err
    else if needsUnwrap t p then enterInner t p (b.take (tal.off + tal.len)) tal
    else .ok (b.take (tal.off + tal.len), p, tal)
  | .err => .err
  | .panic => .panic

mutual
/-- ParseField -/
def unmarshal : Ty → Params → Bytes → Res Val
  | .ptr t, p, b => unmarshal t p b
  | .wrap t, p, b =>
    (match enter (.wrap t) p b with
     | .ok (b', p', _) => unmarshal t p' b'
     | .err => .err
     | .panic => .panic)
  | .choice alts, p, b =>
    (match enter (.choice alts) p b with
     | .ok (b', p', tal) =>
       if p'.openType then .err
       else
         (match p'.tagNumber with
          | some _ =>
            -- embedded CHOICE: the alternative's element starts after the enclosing header
            (match from_ b' tal.off with
             | .ok inner =>
               (match parseTagAndLength inner with
                | .ok tal' =>
                  if tal.off + tal'.off + tal'.len > b'.length then .err
                  else decodeAlt alts alts 0 tal'.tag inner
                | .err => .err
                | .panic => .panic)
             | .err => .err
             | .panic => .panic)
          | none => decodeAlt alts alts 0 tal.tag b')
     | .err => .err
     | .panic => .panic)
  | .struct fs, p, b =>
    (match enter (.struct fs) p b with
     | .ok (b', p', tal) =>
       if fs.length = 0 then .err
       else
          (match from_ b' tal.off with
           | .ok content =>
             (match splitTLVs content content.length with
              | .ok elems =>
                if p'.openType ∧ elems.length > 0 then .err
                else if p'.set then
                  (match decodeSet fs fs elems (zeroVals fs) with
                   | .ok vs => .ok (.struct vs)
                   | .err => .err
                   | .panic => .panic)
                else
                  (match decodeSeq fs elems with
                   | .ok vs => .ok (.struct vs)
                   | .err => .err
                   | .panic => .panic)
              | .err => .err
              | .panic => .panic)
           | .err => .err
           | .panic => .panic)
     | .err => .err
     | .panic => .panic)
  | .slice t, p, b =>
    (match enter (.slice t) p b with
     | .ok (b', p', tal) =>
       (match from_ b' tal.off with
        | .ok content =>
          (match splitTLVs content content.length with
           | .ok elems =>
             (match decodeElems t { p' with tagNumber := none } elems with
              | .ok vs => .ok (.list vs)
              | .err => .err
              | .panic => .panic)
           | .err => .err
           | .panic => .panic)
        | .err => .err
        | .panic => .panic)
     | .err => .err
     | .panic => .panic)
  | t, p, b =>
    (match enter t p b with
     | .ok (b', _, tal) =>
       (match from_ b' tal.off with
        | .ok content =>
          (match t with
           | .bits => parseBitString content
           | .oid => .err
           | .octets => .ok (.bytes content)
           | .enum => (match parseSigned content with
             | .ok i => .ok (.int i)
             | .err => .err
             | .panic => .panic)
           | .null => .ok (.null true)
           | .bool =>
             if tal.off ≥ b'.length then .err
             else (match idx b' tal.off with
               | .ok x => .ok (.bool (x ≠ 0))
               | .err => .err
               | .panic => .panic)
           | .int w => (match parseSigned content with
             | .ok i => .ok (.int (truncInt w i))
             | .err => .err
             | .panic => .panic)
           | .str _ => .ok (.str content)
           | _ => .err)
        | .err => .err
        | .panic => .panic)
     | .err => .err
     | .panic => .panic)
termination_by t _ _ => (sizeOf t, 0)

/-- CHOICE: the first alternative whose tagNum equals the element's tag number -/
def decodeAlt (all : Fields) : Fields → Nat → Nat → Bytes → Res Val
  | .nil, _, _, _ => .err                                    -- "CHOICE present is 0"
  | .cons p t r, i, tag, b =>
    if altMatches p t tag then
      (match unmarshal t p b with
       | .ok v => .ok (.choice (i + 1) (setAt (zeroVals all) i v))
       | .err => .err
       | .panic => .panic)
    else decodeAlt all r (i + 1) tag b
termination_by fs _ _ _ => (sizeOf fs, 0)

/-- SEQUENCE: members are scanned forward once; unmatched members keep their zero value;
    an element no remaining member matches is an error -/
def decodeSeq : Fields → List (Nat × Nat × Bytes) → Res Vals
  | .nil, [] => .ok .nil
  | .nil, _ :: _ => .err                                     -- "corresponding type not found"
  | .cons _ t r, [] =>
    (match decodeSeq r [] with
     | .ok vs => .ok (.cons (zeroVal t) vs)
     | .err => .err
     | .panic => .panic)
  | .cons p t r, (cls, tag, e) :: es =>
    if memberMatches p t cls tag then
      (match unmarshal t p e, decodeSeq r es with
       | .ok v, .ok vs => .ok (.cons v vs)
       | .panic, _ => .panic
       | .err, _ => .err
       | .ok _, .err => .err
       | .ok _, .panic => .panic)
    else
      (match decodeSeq r ((cls, tag, e) :: es) with
       | .ok vs => .ok (.cons (zeroVal t) vs)
       | .err => .err
       | .panic => .panic)
termination_by fs _ => (sizeOf fs, 0)

/-- SET: every element is matched against the members from the first one; later duplicates overwrite -/
def decodeSet (all : Fields) : Fields → List (Nat × Nat × Bytes) → Vals → Res Vals
  | _, [], acc => .ok acc
  | fs, (cls, tag, e) :: es, acc =>
    (match decodeSetOne all fs 0 cls tag e acc with
     | .ok acc' => decodeSet all fs es acc'
     | .err => .err
     | .panic => .panic)
termination_by fs es _ => (sizeOf fs, es.length + 1)

def decodeSetOne (all : Fields) : Fields → Nat → Nat → Nat → Bytes → Vals → Res Vals
  | .nil, _, _, _, _, _ => .err
  | .cons p t r, i, cls, tag, e, acc =>
    if memberMatches p t cls tag then
      (match unmarshal t p e with
       | .ok v => .ok (setAt acc i v)
       | .err => .err
       | .panic => .panic)
    else decodeSetOne all r (i + 1) cls tag e acc
termination_by fs _ _ _ _ _ => (sizeOf fs, 0)

/-- SEQUENCE OF elements -/
def decodeElems : Ty → Params → List (Nat × Nat × Bytes) → Res Vals
  | _, _, [] => .ok .nil
  | t, p, (_, _, e) :: es =>
    (match unmarshal t p e, decodeElems t p es with
     | .ok v, .ok vs => .ok (.cons v vs)
     | .panic, _ => .panic
     | .err, _ => .err
     | .ok _, .err => .err
     | .ok _, .panic => .panic)
termination_by t _ es => (sizeOf t, es.length + 1)
end

end Chf.Ber
