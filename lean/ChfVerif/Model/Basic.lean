/-
  Shared basics for all models: bytes are natural numbers below 256 (`List Nat`),
  fixed-width Go arithmetic is explicit `% 2^k`, hex I/O for the line protocol.
  Core Lean only (no Mathlib) so that the driver can be linked as an executable.
-/
namespace Chf

abbrev Bytes := List Nat

/-- every element is an octet -/
def Bytes.ok (b : Bytes) : Prop := ∀ x ∈ b, x < 256

def be16 (x : Nat) : Bytes := [x / 256 % 256, x % 256]
def be32 (x : Nat) : Bytes := [x / 16777216 % 256, x / 65536 % 256, x / 256 % 256, x % 256]

/-- `binary.BigEndian.Uint16` / `Uint32` on octets -/
def rd16 (a b : Nat) : Nat := a * 256 + b
def rd32 (a b c d : Nat) : Nat := a * 16777216 + b * 65536 + c * 256 + d

/-- Go slice expression `data[a:b]` on a slice whose capacity equals its length:
    `none` is the run-time panic. -/
def slice (d : Bytes) (a b : Nat) : Option Bytes :=
  if a ≤ b ∧ b ≤ d.length then some ((d.drop a).take (b - a)) else none

/-- Go index expression `data[i]` -/
def at? (d : Bytes) (i : Nat) : Option Nat := (d.drop i).head?

/-! hex -/
def hexDigit (n : Nat) : Char :=
  if n < 10 then Char.ofNat (48 + n) else Char.ofNat (87 + n)

def hexOfBytes (b : Bytes) : String :=
  if b.isEmpty then "-" else
  String.ofList (b.foldr (fun x acc => hexDigit (x / 16 % 16) :: hexDigit (x % 16) :: acc) [])

def hexVal (c : Char) : Option Nat :=
  if '0' ≤ c ∧ c ≤ '9' then some (c.toNat - 48)
  else if 'a' ≤ c ∧ c ≤ 'f' then some (c.toNat - 87)
  else if 'A' ≤ c ∧ c ≤ 'F' then some (c.toNat - 55)
  else none

def bytesOfHexAux : List Char → Option Bytes
  | [] => some []
  | [_] => none
  | a :: b :: r =>
    match hexVal a, hexVal b, bytesOfHexAux r with
    | some x, some y, some t => some ((x * 16 + y) :: t)
    | _, _, _ => none

def bytesOfHex (s : String) : Option Bytes :=
  if s = "-" then some [] else bytesOfHexAux s.toList

end Chf
