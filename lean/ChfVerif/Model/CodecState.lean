/-
  The codec's package-level state.

  `Model/Ber.lean` describes Marshal / Unmarshal as FUNCTIONS of (type, parameters, argument).  The Go procedures are
  functions only as long as nothing they do depends on, or leaves behind, package-level state: an output buffer taken
  from a pool, a cache filled on first use, a counter.  This file says what the syntactic facts regenerated into
  `Gen/AsnGlobals.lean` (go/ast over cdr/asn and over the packages importing it) buy:

  * `GlobalVar.frozen` — nothing outside `init` assigns to the variable or a part of it, takes its address, and — unless it is
    an (immutable) reflect.Type handle — calls a method on it; a reference (map, slice, pointer …) is moreover never handed on;
  * a call of the codec is a step `G → In → Out × G` over the package-level store `G`; the bridge from syntax to semantics
    is `Respects`: a step leaves every frozen variable (and every name that is no variable) as it found it.  This is the
    trusted reading of Go's semantics, not proved here;
  * `history_independent`: if all variables are frozen, the answer of a call does not depend on the calls made before it,
    and the store is never changed (`store_unchanged`);
  * `schedule_independent`: the same for goroutines executing calls as sequences of atomic steps under an arbitrary
    scheduler: every goroutine computes what it computes when it runs alone, whatever the interleaving.
  * `unfrozen_counterexample…`: the hypotheses are needed — with one unfrozen variable there are steps that respect the facts
    and answer differently after a history (the pooled buffer, the cache).
-/
namespace Chf.CodecState

structure GlobalVar where
  name : String
  kind : Nat          -- 0 reflect.Type handle, 1 scalar / string, 2 reference (map, slice, pointer, chan, func), 3 other
  assigns : Nat
  addrTaken : Nat
  methodCalls : Nat
  escapes : Nat
  foreign : Nat
deriving DecidableEq, Repr

def GlobalVar.frozen (g : GlobalVar) : Bool :=
  g.assigns == 0 && g.addrTaken == 0 && g.foreign == 0 &&
  (g.kind == 0 || (g.methodCalls == 0 && (g.kind == 1 || g.escapes == 0)))

def allFrozen (vars : List GlobalVar) : Bool := vars.all GlobalVar.frozen

/-- the package-level store: the (abstract) value of every variable name -/
abbrev Store (V : Type) := String → V

/-- `x` is not a variable the calls may change: every declared variable of that name is frozen -/
def Untouchable (vars : List GlobalVar) (x : String) : Prop := ∀ v ∈ vars, v.name = x → v.frozen = true

/-- what the facts mean for a call of the codec: it leaves untouchable names alone -/
def Respects {V In Out : Type} (vars : List GlobalVar) (step : Store V → In → Out × Store V) : Prop :=
  ∀ g i x, Untouchable vars x → (step g i).2 x = g x

theorem untouchable_of_allFrozen {vars : List GlobalVar} (h : allFrozen vars = true) (x : String) : Untouchable vars x := by
  intro v hv _
  exact List.all_eq_true.mp h v hv

/-- a call leaves the store as it was -/
theorem store_unchanged {V In Out : Type} {vars : List GlobalVar} {step : Store V → In → Out × Store V}
    (hf : allFrozen vars = true) (hr : Respects vars step) (g : Store V) (i : In) : (step g i).2 = g :=
  funext fun x => hr g i x (untouchable_of_allFrozen hf x)

/-- the store after a history of calls -/
def after {V In Out : Type} (step : Store V → In → Out × Store V) (g : Store V) : List In → Store V
  | [] => g
  | i :: rest => after step (step g i).2 rest

theorem after_eq {V In Out : Type} {vars : List GlobalVar} {step : Store V → In → Out × Store V}
    (hf : allFrozen vars = true) (hr : Respects vars step) (g : Store V) : ∀ hist : List In, after step g hist = g
  | [] => rfl
  | i :: rest => by
    rw [after, store_unchanged hf hr g i]
    exact after_eq hf hr g rest

/-- the answers of a history of calls, in order -/
def answers {V In Out : Type} (step : Store V → In → Out × Store V) (g : Store V) : List In → List Out
  | [] => []
  | i :: rest => (step g i).1 :: answers step (step g i).2 rest

/-- History independence: with every package-level variable frozen, the answer to a call is the answer the call gets
    from the initial store, whatever was called before … -/
theorem history_independent {V In Out : Type} {vars : List GlobalVar} {step : Store V → In → Out × Store V}
    (hf : allFrozen vars = true) (hr : Respects vars step) (g : Store V) (hist : List In) (i : In) :
    (step (after step g hist) i).1 = (step g i).1 := by
  rw [after_eq hf hr g hist]

/-- … so a history answers item by item what the single calls answer (this is how the Lean driver answers an `H` line) -/
theorem answers_eq_map {V In Out : Type} {vars : List GlobalVar} {step : Store V → In → Out × Store V}
    (hf : allFrozen vars = true) (hr : Respects vars step) (g : Store V) :
    ∀ hist : List In, answers step g hist = hist.map (fun i => (step g i).1)
  | [] => rfl
  | i :: rest => by
    rw [answers, store_unchanged hf hr g i, answers_eq_map hf hr g rest]
    rfl

/-! ### goroutines -/

/-- one atomic step of a goroutine executing a call: it reads and may write the shared store and moves its local state -/
abbrev Micro (V L : Type) := Store V → L → L × Store V

def RespectsMicro {V L : Type} (vars : List GlobalVar) (micro : Micro V L) : Prop :=
  ∀ g l x, Untouchable vars x → (micro g l).2 x = g x

def setLocal {L : Type} (ls : Nat → L) (k : Nat) (l : L) : Nat → L := fun j => if j = k then l else ls j

/-- the scheduler picks, step by step, the goroutine that moves -/
def runSched {V L : Type} (micro : Micro V L) (g : Store V) (ls : Nat → L) : List Nat → (Nat → L) × Store V
  | [] => (ls, g)
  | k :: rest => runSched micro (micro g (ls k)).2 (setLocal ls k (micro g (ls k)).1) rest

/-- a goroutine running alone for `n` steps from store `g` (which its steps leave unchanged) -/
def runAlone {V L : Type} (micro : Micro V L) (g : Store V) (l : L) : Nat → L
  | 0 => l
  | n + 1 => runAlone micro g (micro g l).1 n

theorem runAlone_succ {V L : Type} (micro : Micro V L) (g : Store V) (l : L) (n : Nat) :
    runAlone micro g l (n + 1) = runAlone micro g (micro g l).1 n := rfl

/-- Schedule independence: with every package-level variable frozen, after any interleaving every goroutine is where it
    is after running alone for as many steps as the scheduler gave it, and the store is untouched: concurrent calls answer
    what the same calls answer one after the other. -/
theorem schedule_independent {V L : Type} {vars : List GlobalVar} {micro : Micro V L}
    (hf : allFrozen vars = true) (hr : RespectsMicro vars micro) (g : Store V) :
    ∀ (sched : List Nat) (ls : Nat → L),
      (runSched micro g ls sched).2 = g ∧
      ∀ k, (runSched micro g ls sched).1 k = runAlone micro g (ls k) (sched.count k)
  | [], ls => ⟨rfl, fun _ => rfl⟩
  | j :: rest, ls => by
    have hg : (micro g (ls j)).2 = g := funext fun x => hr g (ls j) x (untouchable_of_allFrozen hf x)
    have ih := schedule_independent hf hr g rest (setLocal ls j (micro g (ls j)).1)
    rw [runSched, hg]
    refine ⟨ih.1, fun k => ?_⟩
    rw [ih.2 k]
    by_cases hk : j = k
    · subst hk
      simp [setLocal, List.count_cons_self, runAlone_succ]
    · have hk' : ¬ k = j := fun h => hk h.symm
      simp [setLocal, hk, hk', List.count_cons_of_ne]

/-! ### the hypothesis is needed -/

/-- a variable the facts do not freeze: a pool / cache that a call writes (method call on a non-handle) -/
def pooled : GlobalVar := ⟨"encodeBufPool", 3, 0, 0, 2, 0, 0⟩

/-- a call that answers with what the previous call left in the pooled variable, and leaves its own argument there -/
def leakyStep : Store Nat → Nat → Nat × Store Nat :=
  fun g i => (g "encodeBufPool", fun x => if x = "encodeBufPool" then i else g x)

theorem leaky_respects : Respects [pooled] leakyStep := by
  intro g i x hx
  by_cases h : x = "encodeBufPool"
  · subst h
    have := hx pooled (by simp) rfl
    simp [pooled, GlobalVar.frozen] at this
  · simp [leakyStep, h]

/-- … and it is history dependent: the facts of `pooled` allow exactly the behaviour a frozen table excludes -/
theorem unfrozen_counterexample :
    allFrozen [pooled] = false ∧ Respects [pooled] leakyStep ∧
    (leakyStep (after leakyStep (fun _ => 0) [7]) 1).1 ≠ (leakyStep (fun _ => 0) 1).1 := by
  refine ⟨by decide, leaky_respects, ?_⟩
  simp [after, leakyStep]

end Chf.CodecState
