/-
  Model of configuration validation (pkg/factory/config.go : Config.Validate, Configuration.validate,
  Sbi.validate with the govalidator struct tags) and of what the start-up code dereferences
  (internal/context InitChfContext, pkg/rf and pkg/abmf OpenServer, internal/sbi startServer,
  pkg/service Start).  A configuration is described by which items are present.
-/
namespace Chf.Config

inductive Scheme | http | https | other | absent
deriving DecidableEq, Repr

/-- `duplicate`: only known names, one of them twice (gin refuses to register a route group twice: start-up panic) -/
inductive Services | ok | unknown | empty | duplicate
deriving DecidableEq, Repr

/-- `protocol` of a Diameter section: the runtime passes it to the dialler and otherwise ignores it; the servers
    always listen on TCP with TLS, the clients always dial with the section's certificate and key -/
inductive Proto | tcp | sctp | other | absent
deriving DecidableEq, Repr

/-- presence of the items a configuration variant may lack (same numbering as harness/cmd/config.go) -/
structure Cfg where
  info : Bool
  version : Bool
  configuration : Bool
  chfName : Bool
  sbi : Bool
  sbiRegister : Bool
  sbiBinding : Bool
  sbiPort : Bool
  sbiTls : Bool
  nrfUri : Bool
  mongodb : Bool
  rf : Bool
  rfTls : Bool
  abmf : Bool
  abmfTls : Bool
  cgf : Bool
  cgfPortRange : Bool
  logger : Bool
  serviceList : Bool
  rfTlsPem : Bool          -- rfDiameter.tls.pem is a non-empty string
  scheme : Scheme
  services : Services
  rfProto : Proto := .tcp      -- rfDiameter.protocol
  abmfProto : Proto := .tcp    -- abmfDiameter.protocol
  cgfEnable : Bool := false    -- cgf.enable: the start-up opens the CGF (FTP) component
deriving DecidableEq, Repr

/-- Sbi.validate + the `valid:` tags of Sbi -/
def sbiValid (c : Cfg) : Bool :=
  (c.scheme == .http || c.scheme == .https) && c.sbiRegister && c.sbiBinding && c.sbiPort &&
  (c.sbiTls || c.scheme != .https)

/-- the `valid:` tags of Diameter (protocol required; tls required — whatever the protocol —, its members non-empty) -/
def rfValid (c : Cfg) : Bool := c.rfTls && c.rfTlsPem && c.rfProto != .absent
def abmfValid (c : Cfg) : Bool := c.abmfTls && c.abmfProto != .absent

/-- Config.Validate: accepted iff true -/
def validate (c : Cfg) : Bool :=
  c.info && c.version && c.logger && c.configuration &&
  c.chfName && c.sbi && sbiValid c &&
  c.serviceList && (c.services == .ok) &&
  c.nrfUri && c.mongodb &&
  c.rf && rfValid c && c.abmf && abmfValid c &&
  c.cgf && c.cgfPortRange

/-- every section the start-up code reads without a nil check is present -/
def startsOK (c : Cfg) : Bool :=
  c.info && c.configuration && c.sbi &&                 -- InitChfContext: config.Info.Version, configuration.Sbi.Scheme
  c.rf && c.abmf &&                                     -- InitChfContext: rfDiameter.HostIPv4, abmfDiameter.HostIPv4
  c.mongodb &&                                          -- rf/abmf OpenServer: Mongodb.Name
  c.rfTls && c.abmfTls &&                               -- OpenServer: Tls.Pem / Tls.Key
  c.cgf &&                                              -- service Start: Cgf.Enable
  (c.cgfPortRange || !c.cgfEnable) &&                   -- cgf.OpenServer (when enabled): Cgf.PassiveTransferPortRange.Start/End;
                                                        -- a struct value in the code at hand (Gen: kind "struct"), so the read
                                                        -- cannot fail, but the model does not rely on that
  (c.sbiTls || c.scheme != .https)                      -- startServer: Sbi.Tls.Pem when https

end Chf.Config
