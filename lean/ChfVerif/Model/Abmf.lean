import ChfVerif.Model.Basic
/-
  Model of pkg/abmf/abmf.go : handleCCR — the account-balance server's handling of one
  Credit-Control-Request against the charging-data store.

  Go strings are byte lists.  int64 arithmetic wraps (`wrap64`).  A stored quota is either
  the raw text found in the database or `num i`, standing for `strconv.FormatInt(i, 10)`
  (that `ParseInt (FormatInt i) = i` is a modelled fact about strconv, see DESIGN §4).
-/
namespace Chf.Abmf

def isDigit (b : Nat) : Bool := 48 ≤ b && b ≤ 57

/-- value of a non-empty all-digit byte string -/
def digitsVal : Bytes → Nat → Option Nat
  | [], acc => some acc
  | b :: r, acc => if isDigit b then digitsVal r (acc * 10 + (b - 48)) else none

def parseDigits (b : Bytes) : Option Nat :=
  match b with
  | [] => none
  | _ => digitsVal b 0

/-- `strconv.ParseInt(s, 10, 64)` / `strconv.Atoi(s)` (64-bit int): optional sign, decimal digits,
    range check; `none` is the error return -/
def parseInt64 (s : Bytes) : Option Int :=
  match s with
  | 43 :: r => match parseDigits r with
    | some n => if n ≤ 9223372036854775807 then some (n : Int) else none
    | none => none
  | 45 :: r => match parseDigits r with
    | some n => if n ≤ 9223372036854775808 then some (-(n : Int)) else none
    | none => none
  | r => match parseDigits r with
    | some n => if n ≤ 9223372036854775807 then some (n : Int) else none
    | none => none

/-- two's-complement int64 wrap-around -/
def wrap64 (i : Int) : Int := (i + 9223372036854775808) % 18446744073709551616 - 9223372036854775808
/-- `int64(x)` for a uint64 `x` -/
def toI64 (u : Nat) : Int := wrap64 (u : Int)
/-- `uint64(i)` for an int64 `i` -/
def toU64 (i : Int) : Nat := (i % 18446744073709551616).toNat

inductive Quota
  | raw (text : Bytes)
  | num (i : Int)
deriving DecidableEq, Repr, Inhabited

def Quota.parse : Quota → Option Int
  | .raw t => parseInt64 t
  | .num i => some i

structure Account where
  ue : Bytes
  rg : Nat
  quota : Quota
deriving DecidableEq, Repr, Inhabited

abbrev Store := List Account

def find : Store → Bytes → Nat → Option Quota
  | [], _, _ => none
  | a :: r, ue, rg => if a.ue = ue ∧ a.rg = rg then some a.quota else find r ue rg

def put : Store → Bytes → Nat → Quota → Store
  | [], _, _, _ => []
  | a :: r, ue, rg, q => if a.ue = ue ∧ a.rg = rg then { a with quota := q } :: r else a :: put r ue rg q

structure CCR where
  sess : Bytes
  reqType : Nat      -- 1 INITIAL, 2 UPDATE, 3 TERMINATION, 4 EVENT
  reqNum : Nat
  action : Nat       -- 0 DIRECT_DEBITING, 1 REFUND_ACCOUNT, 2 CHECK_BALANCE, 3 PRICE_ENQUIRY
  subType : Nat      -- 1 = END_USER_IMSI
  subData : Bytes
  rg : Nat
  rsu : Nat          -- Requested-Service-Unit / CC-Total-Octets (Unsigned64)
  usu : Nat          -- Used-Service-Unit / CC-Total-Octets (Unsigned64)
deriving DecidableEq, Repr, Inhabited

inductive Reply
  | noAnswer
  | answer (sess : Bytes) (reqType reqNum : Nat) (granted : Option Nat) (fui : Bool)
deriving DecidableEq, Repr, Inhabited

def imsiPrefix : Bytes := [105, 109, 115, 105, 45]   -- "imsi-"

def subscriberId (c : CCR) : Bytes := if c.subType = 1 then imsiPrefix ++ c.subData else []

/-- effect of the request on a parsed balance: new balance, granted units, final-unit indication -/
def effect (quota : Int) (c : CCR) : Int × Option Nat × Bool :=
  if c.action = 1 then (wrap64 (quota + toI64 c.rsu), none, false)
  else if c.action = 0 then
    if c.reqType = 1 ∨ c.reqType = 2 then
      let req := toI64 c.rsu
      if req > quota then
        let g := if quota < 0 then 0 else quota
        (wrap64 (quota - g), some (toU64 g), true)
      else (wrap64 (quota - req), some (toU64 req), false)
    else if c.reqType = 3 then (wrap64 (quota - toI64 c.usu), none, false)
    else (quota, none, false)
  else (quota, none, false)

def handleCCR (st : Store) (c : CCR) : Store × Reply :=
  match find st (subscriberId c) c.rg with
  | none => (st, .noAnswer)
  | some q =>
    match q.parse with
    | none => (st, .noAnswer)
    | some quota =>
      match effect quota c with
      | (quota', granted, fui) =>
        (put st (subscriberId c) c.rg (.num quota'), .answer c.sess c.reqType c.reqNum granted fui)

def run (st : Store) : List CCR → Store
  | [] => st
  | c :: r => run (handleCCR st c).1 r

end Chf.Abmf
