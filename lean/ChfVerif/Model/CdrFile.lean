import ChfVerif.Model.Basic
/-
  Model of cdr/cdrFile/cdrFile.go : CdrFileHeader.Encoding, CdrHeader.Encoding,
  CDRFile.Encoding (the bytes handed to os.WriteFile) and CDRFile.Decoding (on the bytes
  returned by os.ReadFile).  Go's fixed-width fields are `Nat`s; every place where Go
  truncates (uint8 shifts) is an explicit `%`.  A run-time panic of Decoding (index or
  slice out of range) is `none`.
-/
namespace Chf.CdrFile

structure TimeStamp where
  month : Nat
  date : Nat
  hour : Nat
  minute : Nat
  sign : Nat
  hdev : Nat
  mdev : Nat
deriving DecidableEq, Repr, Inhabited

structure FileHeader where
  fileLength : Nat
  headerLength : Nat
  highRel : Nat
  highVer : Nat
  lowRel : Nat
  lowVer : Nat
  openTs : TimeStamp
  lastTs : TimeStamp
  numCdrs : Nat
  fileSeq : Nat
  closure : Nat
  ip : Bytes
  lost : Nat
  lenFilter : Nat
  filter : Bytes
  lenExt : Nat
  ext : Bytes
  highExt : Nat
  lowExt : Nat
deriving DecidableEq, Repr, Inhabited

structure CdrHeader where
  cdrLength : Nat
  rel : Nat
  ver : Nat
  fmt : Nat
  ts : Nat
  relExt : Nat
deriving DecidableEq, Repr, Inhabited

structure Cdr where
  hdr : CdrHeader
  bytes : Bytes
deriving DecidableEq, Repr, Inhabited

structure File where
  hdr : FileHeader
  cdrs : List Cdr
deriving DecidableEq, Repr, Inhabited

/-- `uint32(m)<<28 | uint32(d)<<23 | uint32(h)<<18 | uint32(mi)<<12 | uint32(s)<<11 |
    uint32(hd)<<6 | uint32(md)` on uint8 operands (only the first shift can overflow 32 bits) -/
def packTs (t : TimeStamp) : Nat :=
  ((t.month <<< 28) % 4294967296) ||| (t.date <<< 23) ||| (t.hour <<< 18) |||
    (t.minute <<< 12) ||| (t.sign <<< 11) ||| (t.hdev <<< 6) ||| t.mdev

/-- `(rel << 5) | ver` in uint8 arithmetic -/
def packId (rel ver : Nat) : Nat := ((rel <<< 5) % 256) ||| ver

/-- the 50 octets before the routeing filter -/
def fixedPart (h : FileHeader) : Bytes :=
  be32 h.fileLength ++ be32 h.headerLength ++
  [packId h.highRel h.highVer, packId h.lowRel h.lowVer] ++
  be32 (packTs h.openTs) ++ be32 (packTs h.lastTs) ++
  be32 h.numCdrs ++ be32 h.fileSeq ++ [h.closure] ++ h.ip ++ [h.lost] ++ be16 h.lenFilter

def extPart (h : FileHeader) : Bytes :=
  (if h.highRel = 7 then [h.highExt] else []) ++ (if h.lowRel = 7 then [h.lowExt] else [])

def encodeHeader (h : FileHeader) : Bytes :=
  fixedPart h ++ h.filter ++ be16 h.lenExt ++ h.ext ++ extPart h

def encodeCdrHeader (c : CdrHeader) : Bytes :=
  be16 c.cdrLength ++ [packId c.rel c.ver, packId c.fmt c.ts] ++
    (if c.rel = 7 then [c.relExt] else [])

def encodeCdr (c : Cdr) : Bytes := encodeCdrHeader c.hdr ++ c.bytes

def encodeCdrs : List Cdr → Bytes
  | [] => []
  | c :: r => encodeCdr c ++ encodeCdrs r

def encodeFile (f : File) : Bytes := encodeHeader f.hdr ++ encodeCdrs f.cdrs

/-! ### Decoding -/

def unpackTs (ts : Nat) : TimeStamp :=
  { month := (ts >>> 28) % 256
    date := (ts >>> 23) &&& 31
    hour := (ts >>> 18) &&& 31
    minute := (ts >>> 12) &&& 63
    sign := (ts >>> 11) &&& 1
    hdev := (ts >>> 6) &&& 31
    mdev := ts &&& 63 }

/-- the record loop: `n` iterations starting at offset `tail` -/
def decodeCdrs (data : Bytes) : Nat → Nat → Option (List Cdr)
  | 0, _ => some []
  | n + 1, tail =>
    match slice data tail (tail + 2), at? data (tail + 2), at? data (tail + 3) with
    | some [l0, l1], some id, some o4 =>
      let cdrLength := rd16 l0 l1
      let rel := id >>> 5
      let hd : CdrHeader :=
        { cdrLength := cdrLength, rel := rel, ver := id &&& 31,
          fmt := o4 >>> 5, ts := o4 &&& 31, relExt := 0 }
      if rel = 7 then
        match at? data (tail + 4), slice data (tail + 5) (tail + 5 + cdrLength) with
        | some e, some body =>
          match decodeCdrs data n (tail + 5 + cdrLength) with
          | some r => some ({ hdr := { hd with relExt := e }, bytes := body } :: r)
          | none => none
        | _, _ => none
      else
        match slice data (tail + 4) (tail + 4 + cdrLength) with
        | some body =>
          match decodeCdrs data n (tail + 4 + cdrLength) with
          | some r => some ({ hdr := hd, bytes := body } :: r)
          | none => none
        | none => none
    | _, _, _ => none

/-- header fields read at fixed offsets; requires at least 50 octets -/
def decodeFixed (data : Bytes) : Option FileHeader :=
  match data.take 27, (data.drop 27).take 23 with
  | [f0, f1, f2, f3, h0, h1, h2, h3, hi, lo, o0, o1, o2, o3, a0, a1, a2, a3,
     n0, n1, n2, n3, s0, s1, s2, s3, cl],
    [i0, i1, i2, i3, i4, i5, i6, i7, i8, i9, i10, i11, i12, i13, i14, i15, i16, i17, i18, i19,
     lost, r0, r1] =>
    some
      { fileLength := rd32 f0 f1 f2 f3
        headerLength := rd32 h0 h1 h2 h3
        highRel := hi >>> 5
        highVer := hi &&& 31
        lowRel := lo >>> 5
        lowVer := lo &&& 31
        openTs := unpackTs (rd32 o0 o1 o2 o3)
        lastTs := unpackTs (rd32 a0 a1 a2 a3)
        numCdrs := rd32 n0 n1 n2 n3
        fileSeq := rd32 s0 s1 s2 s3
        closure := cl
        ip := [i0, i1, i2, i3, i4, i5, i6, i7, i8, i9, i10, i11, i12, i13, i14, i15, i16, i17, i18, i19]
        lost := lost
        lenFilter := rd16 r0 r1
        filter := []
        lenExt := 0
        ext := []
        highExt := 0
        lowExt := 0 }
  | _, _ => none

def decodeFile (data : Bytes) : Option File :=
  match decodeFixed data with
  | none => none
  | some h0 =>
    let xy := 50 + h0.lenFilter
    match slice data xy (xy + 2), slice data 50 xy with
    | some [e0, e1], some filter =>
      let lenExt := rd16 e0 e1
      let n := xy + 2 + lenExt
      match slice data (xy + 2) n with
      | none => none
      | some ext =>
        let h1 := { h0 with filter := filter, lenExt := lenExt, ext := ext }
        -- release identifier extensions, high then low
        let rHigh : Option (FileHeader × Nat) :=
          if h1.highRel = 7 then
            match at? data n with
            | some e => some ({ h1 with highExt := e }, n + 1)
            | none => none
          else some (h1, n)
        match rHigh with
        | none => none
        | some (h2, t2) =>
          let rLow : Option (FileHeader × Nat) :=
            if h2.lowRel = 7 then
              match at? data t2 with
              | some e => some ({ h2 with lowExt := e }, t2 + 1)
              | none => none
            else some (h2, t2)
          match rLow with
          | none => none
          | some (h3, t3) =>
            match decodeCdrs data h3.numCdrs t3 with
            | some cs => some { hdr := h3, cdrs := cs }
            | none => none
    | _, _ => none

/-! ### Well-formedness (the hypothesis of C14 / C15) -/

def TimeStamp.WF (t : TimeStamp) : Prop :=
  t.month < 16 ∧ t.date < 32 ∧ t.hour < 32 ∧ t.minute < 64 ∧ t.sign < 2 ∧ t.hdev < 32 ∧ t.mdev < 64

def CdrHeader.WF (c : CdrHeader) : Prop :=
  c.cdrLength < 65536 ∧ c.rel < 8 ∧ c.ver < 32 ∧ c.fmt < 8 ∧ c.ts < 32 ∧ c.relExt < 256 ∧
  (c.rel ≠ 7 → c.relExt = 0)

def Cdr.WF (c : Cdr) : Prop :=
  c.hdr.WF ∧ c.bytes.length = c.hdr.cdrLength ∧ Bytes.ok c.bytes

def FileHeader.WF (h : FileHeader) : Prop :=
  h.fileLength < 4294967296 ∧ h.headerLength < 4294967296 ∧
  h.highRel < 8 ∧ h.highVer < 32 ∧ h.lowRel < 8 ∧ h.lowVer < 32 ∧
  h.openTs.WF ∧ h.lastTs.WF ∧ h.numCdrs < 4294967296 ∧ h.fileSeq < 4294967296 ∧
  h.closure < 256 ∧ h.ip.length = 20 ∧ Bytes.ok h.ip ∧ h.lost < 256 ∧
  h.lenFilter < 65536 ∧ h.filter.length = h.lenFilter ∧ Bytes.ok h.filter ∧
  h.lenExt < 65536 ∧ h.ext.length = h.lenExt ∧ Bytes.ok h.ext ∧
  h.highExt < 256 ∧ h.lowExt < 256 ∧
  (h.highRel ≠ 7 → h.highExt = 0) ∧ (h.lowRel ≠ 7 → h.lowExt = 0)

def File.WF (f : File) : Prop :=
  f.hdr.WF ∧ f.hdr.numCdrs = f.cdrs.length ∧ ∀ c ∈ f.cdrs, c.WF

/-! ### the destination file

  `CDRFile.Encoding` writes the octets to a named file.  What is on disk afterwards depends on how the file is
  opened when it already exists (os.WriteFile / os.Create / O_TRUNC discard the old content; a plain
  O_WRONLY|O_CREATE writes over its beginning; O_APPEND writes behind it).  Which of these the code does is
  regenerated from the source into `Gen/CdrFileFacts.lean`. -/

structure WriteMode where
  truncates : Bool
  appends : Bool
deriving DecidableEq, Repr

/-- the file after `new` was written to a file holding `old` (a missing file holds nothing) -/
def writeOver (m : WriteMode) (old new : Bytes) : Bytes :=
  if m.truncates then new
  else if m.appends then old ++ new
  else new ++ old.drop new.length

/-- the destination after `Encoding`, given what it held before (`none`: no such file) -/
def encodingOnto (m : WriteMode) (old : Option Bytes) (f : File) : Bytes :=
  writeOver m (old.getD []) (encodeFile f)

/-- the pre-existing content the `cdrfile over` operation puts in place: n octets, octet j = fill + 7 j -/
def patternBytes (n fill : Nat) : Bytes := (List.range n).map fun j => (fill + j * 7) % 256

end Chf.CdrFile
