import ChfVerif.Model.Abmf
/-
  C07 as a predicate on one observed step: store before, request, reply, store after.
  This is the oracle the check evaluates on the *implementation's* trace, and the statement the
  model is proved to satisfy (Props/C07.lean : `C07_model_holds`).
-/
namespace Chf.Abmf

/-- the money movement the property prescribes for one request on balance `b` -/
def delta (b : Int) (c : CCR) : Int :=
  if c.action = 1 then (c.rsu : Int)
  else if c.action = 0 then
    if c.reqType = 1 ∨ c.reqType = 2 then -(min (c.rsu : Int) (max b 0))
    else if c.reqType = 3 then -(c.usu : Int) else 0
  else 0

def inRangeB (i : Int) : Bool := decide (-9223372036854775808 ≤ i) && decide (i < 9223372036854775808)

/-- the property's quantifier: amounts in 0..2^63-1, exact result representable -/
def admissibleB (b : Int) (c : CCR) : Bool :=
  decide (c.rsu < 9223372036854775808) && decide (c.usu < 9223372036854775808) && inRangeB b &&
    inRangeB (b + delta b c)

def isReserve (c : CCR) : Bool := c.action = 0 && (c.reqType = 1 || c.reqType = 2)

/-- all accounts other than (ue, rg) are the same in both stores -/
def othersSame (ue : Bytes) (rg : Nat) (a b : Store) : Bool :=
  a.filter (fun x => ¬ (x.ue = ue ∧ x.rg = rg)) == b.filter (fun x => ¬ (x.ue = ue ∧ x.rg = rg))

/-- `holds before c reply after` — C07 on one step (vacuously true outside the property's quantifier) -/
def holds (before : Store) (c : CCR) (r : Reply) (after : Store) : Bool :=
  let ue := subscriberId c
  match find before ue c.rg with
  | none => r == .noAnswer && after == before
  | some q =>
    match q.parse with
    | none => r == .noAnswer && after == before
    | some b =>
      if admissibleB b c then
        (match r with
         | .noAnswer => false
         | .answer s t n g f =>
           s == c.sess && t == c.reqType && n == c.reqNum &&
           (if isReserve c then
              g == some (min (c.rsu : Int) (max b 0)).toNat && f == decide ((c.rsu : Int) > b)
            else true)) &&
        (match find after ue c.rg with
         | some q' => q'.parse == some (b + delta b c) && decide (isReserve c → 0 ≤ b → 0 ≤ b + delta b c)
         | none => false) &&
        othersSame ue c.rg before after
      else true

end Chf.Abmf
