import ChfVerif.Model.CdrFile
/-
  An independent reader for the TS 32.297 clause 6.1 file format, written from the layout
  (as restated in property C15) and sharing no definition with the encoder/decoder model
  except the record types it fills in.  It is a cursor-style parser (consume n octets,
  continue with the rest) using div/mod arithmetic, whereas the code under test uses
  absolute offsets, shifts and masks.

  Layout (octet numbers 1-based as in the specification):
    1..4 file length | 5..8 header length | 9 high release(bits 8..6)/version(5..1)
    10 low release/version | 11..14 file opening timestamp | 15..18 last CDR append timestamp
    19..22 number of CDRs | 23..26 file sequence number | 27 closure trigger reason
    28..47 node IP address | 48 lost CDR indicator | 49..50 length of routeing filter
    filter | 2 octets length of private extension | private extension
    [high release identifier extension, iff high release = 7]
    [low release identifier extension, iff low release = 7]
  Timestamp (32 bits, msb first): month 4 | date 5 | hour 5 | minute 6 | sign 1 | hour dev 5 | min dev 6
  Record: 1..2 CDR length | 3 release(8..6)/version(5..1) | 4 format(8..6)/TS number(5..1)
          [5 release identifier extension iff release = 7] | CDR length payload octets
-/
namespace Chf.TS32297
open Chf Chf.CdrFile

abbrev P (α : Type) := Bytes → Option (α × Bytes)

def u8 : P Nat
  | [] => none
  | x :: r => some (x, r)

def u16 : P Nat
  | a :: b :: r => some (256 * a + b, r)
  | _ => none

def u32 : P Nat
  | a :: b :: c :: d :: r => some (256 * (256 * (256 * a + b) + c) + d, r)
  | _ => none

def octets (n : Nat) : P Bytes := fun b =>
  if n ≤ b.length then some (b.take n, b.drop n) else none

/-- field of `w` bits whose least significant bit is bit `lo` (0-based) of `x` -/
def field (x lo w : Nat) : Nat := x / 2 ^ lo % 2 ^ w

def timeStamp (x : Nat) : TimeStamp :=
  { month := field x 28 4, date := field x 23 5, hour := field x 18 5, minute := field x 12 6,
    sign := field x 11 1, hdev := field x 6 5, mdev := field x 0 6 }

def header : P FileHeader := fun b =>
  match u32 b with
  | none => none
  | some (fileLength, b) =>
  match u32 b with
  | none => none
  | some (headerLength, b) =>
  match u8 b with
  | none => none
  | some (hi, b) =>
  match u8 b with
  | none => none
  | some (lo, b) =>
  match u32 b with
  | none => none
  | some (ots, b) =>
  match u32 b with
  | none => none
  | some (lts, b) =>
  match u32 b with
  | none => none
  | some (num, b) =>
  match u32 b with
  | none => none
  | some (seq, b) =>
  match u8 b with
  | none => none
  | some (closure, b) =>
  match octets 20 b with
  | none => none
  | some (ip, b) =>
  match u8 b with
  | none => none
  | some (lost, b) =>
  match u16 b with
  | none => none
  | some (lenFilter, b) =>
  match octets lenFilter b with
  | none => none
  | some (filter, b) =>
  match u16 b with
  | none => none
  | some (lenExt, b) =>
  match octets lenExt b with
  | none => none
  | some (ext, b) =>
  let highRel := field hi 5 3
  let lowRel := field lo 5 3
  match (if highRel = 7 then u8 b else some (0, b)) with
  | none => none
  | some (highExt, b) =>
  match (if lowRel = 7 then u8 b else some (0, b)) with
  | none => none
  | some (lowExt, b) =>
    some ({ fileLength := fileLength, headerLength := headerLength,
            highRel := highRel, highVer := field hi 0 5, lowRel := lowRel, lowVer := field lo 0 5,
            openTs := timeStamp ots, lastTs := timeStamp lts, numCdrs := num, fileSeq := seq,
            closure := closure, ip := ip, lost := lost, lenFilter := lenFilter, filter := filter,
            lenExt := lenExt, ext := ext, highExt := highExt, lowExt := lowExt }, b)

def record : P Cdr := fun b =>
  match u16 b with
  | none => none
  | some (len, b) =>
  match u8 b with
  | none => none
  | some (o3, b) =>
  match u8 b with
  | none => none
  | some (o4, b) =>
  let rel := field o3 5 3
  match (if rel = 7 then u8 b else some (0, b)) with
  | none => none
  | some (relExt, b) =>
  match octets len b with
  | none => none
  | some (body, b) =>
    some ({ hdr := { cdrLength := len, rel := rel, ver := field o3 0 5, fmt := field o4 5 3,
                     ts := field o4 0 5, relExt := relExt }, bytes := body }, b)

def records : Nat → P (List Cdr)
  | 0, b => some ([], b)
  | n + 1, b =>
    match record b with
    | none => none
    | some (c, b) =>
      match records n b with
      | none => none
      | some (cs, b) => some (c :: cs, b)

/-- read a whole file: header, exactly `numCdrs` records, and nothing left over -/
def read (b : Bytes) : Option File :=
  match header b with
  | none => none
  | some (h, b) =>
    match records h.numCdrs b with
    | some (cs, []) => some { hdr := h, cdrs := cs }
    | _ => none

/-- the length fields of a written file describe the file (used by C03) -/
def lengthsConsistent (b : Bytes) : Bool :=
  match header b with
  | none => false
  | some (h, rest) =>
    h.fileLength = b.length && h.headerLength = b.length - rest.length &&
    (match records h.numCdrs rest with
     | some (_, []) => true
     | _ => false)

end Chf.TS32297
