import ChfVerif.Lemmas.BerStructRT
/-
  The domain of the round-trip law C05, as a decidable predicate on (type, top-level parameters) that the driver evaluates
  for the check: the types for which `Props.C05.C05_domain` proves decode(encode v) = v for every canonical value —

  * `rtTy t ∧ rtParams p`: arbitrarily nested SEQUENCE / SEQUENCE OF / CHOICE / Value-List wrappers / pointers whose members
    carry a context tag or a universal tag of their own, whose OPTIONAL members cannot be taken for a later member and whose
    CHOICE alternatives are selected by distinct tag numbers; no SET, no EXPLICIT tag on a member, no open type.  Every
    type of the CDR schema is one (`C05_schema`, decide over the regenerated table);
  * `primDomain t p`: the primitive types — behind pointers, INTEGER / ENUMERATED / OCTET STRING / character strings also
    behind a Value wrapper — under ANY tagging (IMPLICIT, EXPLICIT, none) with a tag number below 2^63.

  Outside it are exactly the shapes the decoder cannot tell apart by looking at tag numbers: an untagged member that is a
  CHOICE, members of a SET or an absent OPTIONAL member and a later member whose tag NUMBERS coincide (matchMember compares the
  number, not the class), alternatives sharing a number.  The schema has none of them.
-/
namespace Chf.Ber

def primParams (p : Params) : Bool :=
  match p.tagNumber with
  | some n => decide (n < 9223372036854775808)
  | none => true

def primDomain : Ty → Params → Bool
  | .ptr t, p => primDomain t p
  | .wrap (.int w), p => (w == 32 || w == 64) && primParams p
  | .wrap .enum, p => primParams p
  | .wrap .octets, p => primParams p
  | .wrap (.str d), p => primParams p && decide (stringTagOf p d < 9223372036854775808)
  | .bool, p => primParams p
  | .enum, p => primParams p
  | .octets, p => primParams p
  | .bits, p => primParams p
  | .null, p => primParams p
  | .int w, p => (w == 32 || w == 64) && primParams p
  | .str d, p => primParams p && decide (stringTagOf p d < 9223372036854775808)
  | _, _ => false

def inDomain (t : Ty) (p : Params) : Bool := (rtTy t && rtParams p) || primDomain t p

end Chf.Ber
