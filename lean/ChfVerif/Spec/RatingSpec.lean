import ChfVerif.Model.Rating
/-
  C08 as a predicate on one observed exchange with the rating server: stored unit-cost text (if the
  subscriber / rating group is known), request, reply.  The unit cost is taken as the CHF decodes it
  from the tariff *in the answer* (`chfUnitCost`), so a disagreement between what the server applied
  and what it advertises shows up as a wrong price.
-/
namespace Chf.Rating

def isPlainNat (s : Bytes) : Bool := !s.isEmpty && s.all Chf.Abmf.isDigit

def holds (stored : Option Bytes) (c : SUR) (r : Reply) : Bool :=
  match stored with
  | none => r == .noAnswer
  | some s =>
    match r with
    | .noAnswer => false
    | .answer sess d e allowed price =>
      let cost := chfUnitCost d e
      sess == c.sess &&
      -- a stored plain decimal integer below 2^32 is the unit cost
      (match Chf.Abmf.parseInt64 s with
       | some n => if isPlainNat s && decide (n < 4294967296) then decide ((cost : Int) = n) else true
       | none => true) &&
      (if c.reqSub = 2 then
         (if c.consumed * cost < 4294967296 then allowed == 0 && price == c.consumed * cost else true)
       else if c.reqSub = 1 then
         (if c.quota < 4294967296 then
            (if cost = 0 then allowed == 0 && price == 0
             else allowed == c.quota / cost && price == allowed * cost && decide (price ≤ c.quota))
          else true)
       else true)

end Chf.Rating
