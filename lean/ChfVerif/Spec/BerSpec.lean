import ChfVerif.Model.Ber
/- decidable well-formedness conditions on type descriptions (checked over the regenerated schema) -/
namespace Chf.Ber

mutual
/-- every OPTIONAL member, at any depth, has a nil-able Go kind (pointer, slice, OctetString):
    the encoder calls reflect's IsNil on optional members, which panics on any other kind -/
def optNilable : Ty → Bool
  | .ptr t => optNilable t
  | .slice t => optNilable t
  | .wrap t => optNilable t
  | .choice alts => optNilableFs alts
  | .struct fs => optNilableFs fs
  | _ => true
def optNilableFs : Fields → Bool
  | .nil => true
  | .cons p t r => (!p.optional || nilable t) && optNilable t && optNilableFs r
end

end Chf.Ber

namespace Chf.Ber

def paramsOK (p : Params) : Bool :=
  (match p.tagNumber with | some n => decide (n < 18446744073709551616) | none => true) &&
  decide (p.stringType < 18446744073709551616)

mutual
/-- every declared tag number fits the codec's uint64 -/
def tagsOK : Ty → Bool
  | .ptr t => tagsOK t
  | .slice t => tagsOK t
  | .wrap t => tagsOK t
  | .choice alts => tagsOKFs alts
  | .struct fs => tagsOKFs fs
  | .str d => decide (d < 18446744073709551616)
  | _ => true
def tagsOKFs : Fields → Bool
  | .nil => true
  | .cons p t r => paramsOK p && tagsOK t && tagsOKFs r
end

end Chf.Ber

namespace Chf.Ber

mutual
/-- every integer of the value is an int64 (Go values always are) -/
def valOK : Val → Bool
  | .int i => decide (-9223372036854775808 ≤ i ∧ i ≤ 9223372036854775807)
  | .list vs => valsOK vs
  | .choice _ vs => valsOK vs
  | .struct vs => valsOK vs
  | _ => true
def valsOK : Vals → Bool
  | .nil => true
  | .cons v r => valOK v && valsOK r
end

end Chf.Ber

namespace Chf.Ber

/-- the input is a BOOLEAN / INTEGER / ENUMERATED / BIT STRING element (no EXPLICIT wrapper due) whose length octets
    say 0 — C16: such input is reported as an error (Props.C16.C16_zero_length_element), whatever follows it -/
def zeroLenPrim (t : Ty) (p : Params) (b : Bytes) : Bool :=
  (match t with
   | .bool => true
   | .enum => true
   | .bits => true
   | .int _ => true
   | _ => false) && !needsUnwrap t p &&
  (match parseTagAndLength b with
   | .ok tal => tal.len == 0
   | _ => false)

end Chf.Ber
