import ChfVerif.Model.Charging
/-
  Decidable predicates and quantities in which C01 / C06 are stated and which the driver evaluates
  on every operation: the property's quantifier (peers answer, products fit), rated usage, credits.
-/
namespace Chf.Charging
open Chf
open Chf.Abmf (find put)

/-- parsed balance of an account -/
def balOf (accts : Abmf.Store) (supi : Bytes) (rg : Nat) : Option Int :=
  match find accts supi rg with
  | some q => q.parse
  | none => none

/-- reservation held for a rating group (0 when the group is not registered) -/
def resv (groups : List (Int × RgState)) (rg : Int) : Int :=
  match getRg groups rg with
  | some s => s.reserved
  | none => 0

/-- unit cost the tariff text stands for -/
def costOf (s : Bytes) : Nat := Rating.chfUnitCost (Rating.buildTariff s).1 (Rating.buildTariff s).2

/-- decidable side conditions of one usage: peers answer, no wrap-around (the property's quantifier) -/
def usageOKb (e : Env) (supi : Bytes) (trigs : List Nat) (groups : List (Int × RgState)) (u : Usage) : Bool :=
  if anyOnline u.cs then
    match balOf e.accts supi (u32 u.rg), Rating.findCost e.tariffs supi (u32 u.rg) with
    | some b, some s =>
      decide (imsiPrefix ++ subData supi = supi) &&
      decide (totalUsed u.cs * costOf s < 4294967296) && decide (reqVolOf u * costOf s < 4294967296) &&
      decide (-2305843009213693952 ≤ b ∧ b ≤ 2305843009213693952) &&
      decide (-2305843009213693952 ≤ resv groups u.rg ∧ resv groups u.rg ≤ 2305843009213693952) &&
      decide (-2147483648 ≤ u.rg ∧ u.rg < 2147483648) &&
      decide ((entryState trigs groups u).mode = 1 ∨ (entryState trigs groups u).mode = 2)
    | _, _ => false
  else decide (-2147483648 ≤ u.rg ∧ u.rg < 2147483648)

/-- money rated for one usage: unit cost × online usage -/
def ratedUsage (tariffs : List Rating.Tariff) (supi : Bytes) (u : Usage) : Nat :=
  if anyOnline u.cs then
    match Rating.findCost tariffs supi (u32 u.rg) with
    | some s => totalUsed u.cs * costOf s
    | none => 0
  else 0

/-- balance + reservation of one (subscriber, rating group), when the account exists -/
def moneyOf (accts : Abmf.Store) (groups : List (Int × RgState)) (supi : Bytes) (rg : Int) : Option Int :=
  match balOf accts supi (u32 rg) with
  | some b => some (b + resv groups rg)
  | none => none

/-- side conditions of a whole usage list, evaluated along the loop -/
def ccOKb (tariffs : List Rating.Tariff) (supi : Bytes) (trigs : List Nat) :
    Abmf.Store → List (Int × RgState) → List Usage → Bool
  | _, _, [] => true
  | accts, groups, u :: r =>
    usageOKb { accts := accts, tariffs := tariffs } supi trigs groups u &&
    ccOKb tariffs supi trigs (usageStep { accts := accts, tariffs := tariffs } supi trigs groups u).1
      (usageStep { accts := accts, tariffs := tariffs } supi trigs groups u).2.1 r

/-- money rated by a usage list for one rating group -/
def ratedList (tariffs : List Rating.Tariff) (supi : Bytes) (rg : Int) : List Usage → Int
  | [] => 0
  | u :: r => (if rg = u.rg then (ratedUsage tariffs supi u : Int) else 0) + ratedList tariffs supi rg r

/-- rating groups (with their money state) the CHF holds for a subscriber -/
def groupsOf (s : State) (supi : Bytes) : List (Int × RgState) :=
  match findUe s.ues supi with
  | some u => u.groups
  | none => []

/-- account balance + reservation held by the CHF, for one subscriber and rating group -/
def total (s : State) (supi : Bytes) (rg : Int) : Option Int := moneyOf s.accts (groupsOf s supi) supi rg

/-- the usage list an operation submits to credit control (none when it is rejected or is no charging update) -/
def chargedUsages (s : State) : Op → Option (Bytes × List Nat × List (Int × RgState) × List Usage)
  | .update sid r | .release sid r =>
    (match findUe s.ues r.supi with
     | none => none
     | some ue =>
       match lookupSid ue.cdr sid with
       | none => none
       | some _ => some (r.supi, r.trigs, ue.groups, r.usages))
  | _ => none

/-- the property's quantifier for one operation: both servers reachable, peers answer, products fit (decidable) -/
def opOKb (s : State) (op : Op) : Bool :=
  match chargedUsages s op with
  | some (supi, trigs, groups, us) => s.abmfUp && s.rfUp && ccOKb s.tariffs supi trigs s.accts groups us
  | none => true

/-- unit cost × online usage reported by the operation for (supi, rg) -/
def ratedOp (s : State) (op : Op) (supi : Bytes) (rg : Int) : Int :=
  match chargedUsages s op with
  | some (supi', _, _, us) => if supi' = supi then ratedList s.tariffs supi rg us else 0
  | none => 0

/-- money credited to (supi, rg) by the operation -/
def creditedOp (s : State) (op : Op) (supi : Bytes) (rg : Int) : Int :=
  match op with
  | .credit supi' rg' amt =>
    if supi' = supi ∧ rg' = u32 rg then
      (match balOf s.accts supi' rg' with
       | some _ => amt
       | none => 0)
    else 0
  | _ => 0


/-! ### across outages of the account-balance / rating server

  What the code books for a reported usage when a server cannot be reached (the error paths of
  sessionChargingReservation), stated without reference to the branch functions of the model:
  * reserve mode: `ReservedQuota -= used × unit cost` happens before any account request, whether or not the
    account server answers; the unit cost is the tariff's, or 1 when the rating server is unreachable (getUnitCost);
  * debit mode: the final price is settled only when both servers answer — otherwise `continue`: nothing is booked. -/

/-- unit cost the CHF applies to a usage report -/
def appliedCost (rfUp : Bool) (tariffs : List Rating.Tariff) (supi : Bytes) (u : Usage) : Nat :=
  if rfUp then
    match Rating.findCost tariffs supi (u32 u.rg) with
    | some s => costOf s
    | none => 1
  else 1

/-- money booked for one reported usage, given which servers can be reached -/
def accountedUsage (abmfUp rfUp : Bool) (tariffs : List Rating.Tariff) (supi : Bytes) (trigs : List Nat)
    (groups : List (Int × RgState)) (u : Usage) : Nat :=
  if anyOnline u.cs then
    if (entryState trigs groups u).mode = 1 then totalUsed u.cs * appliedCost rfUp tariffs supi u
    else if abmfUp && rfUp then ratedUsage tariffs supi u else 0
  else 0

/-- the stores as the CHF reaches them -/
def seenEnv (abmfUp rfUp : Bool) (accts : Abmf.Store) (tariffs : List Rating.Tariff) : Env :=
  { accts := if abmfUp then accts else [], tariffs := if rfUp then tariffs else [] }

/-- side conditions of one usage for any reachability: a reachable server knows the subscriber and the products
    fit (as `usageOKb`); nothing is asked of a server that is not reached -/
def usageOKx (abmfUp rfUp : Bool) (e : Env) (supi : Bytes) (trigs : List Nat) (groups : List (Int × RgState))
    (u : Usage) : Bool :=
  if anyOnline u.cs then
    decide (imsiPrefix ++ subData supi = supi) &&
    decide (-2147483648 ≤ u.rg ∧ u.rg < 2147483648) &&
    decide ((entryState trigs groups u).mode = 1 ∨ (entryState trigs groups u).mode = 2) &&
    decide (-2305843009213693952 ≤ resv groups u.rg ∧ resv groups u.rg ≤ 2305843009213693952) &&
    (if rfUp then
       match Rating.findCost e.tariffs supi (u32 u.rg) with
       | some s => decide (totalUsed u.cs * costOf s < 4294967296) && decide (reqVolOf u * costOf s < 4294967296)
       | none => false
     else true) &&
    (if abmfUp then
       match balOf e.accts supi (u32 u.rg) with
       | some b => decide (-2305843009213693952 ≤ b ∧ b ≤ 2305843009213693952)
       | none => false
     else true)
  else decide (-2147483648 ≤ u.rg ∧ u.rg < 2147483648)

/-- the account store after one usage: requests that reached no server changed nothing -/
def acctsNext (abmfUp rfUp : Bool) (tariffs : List Rating.Tariff) (supi : Bytes) (trigs : List Nat)
    (accts : Abmf.Store) (groups : List (Int × RgState)) (u : Usage) : Abmf.Store :=
  if abmfUp then (usageStep (seenEnv abmfUp rfUp accts tariffs) supi trigs groups u).1 else accts

def ccOKx (abmfUp rfUp : Bool) (tariffs : List Rating.Tariff) (supi : Bytes) (trigs : List Nat) :
    Abmf.Store → List (Int × RgState) → List Usage → Bool
  | _, _, [] => true
  | accts, groups, u :: r =>
    usageOKx abmfUp rfUp { accts := accts, tariffs := tariffs } supi trigs groups u &&
    ccOKx abmfUp rfUp tariffs supi trigs (acctsNext abmfUp rfUp tariffs supi trigs accts groups u)
      (usageStep (seenEnv abmfUp rfUp accts tariffs) supi trigs groups u).2.1 r

/-- money booked by a usage list for one rating group -/
def accountedList (abmfUp rfUp : Bool) (tariffs : List Rating.Tariff) (supi : Bytes) (trigs : List Nat) (rg : Int) :
    Abmf.Store → List (Int × RgState) → List Usage → Int
  | _, _, [] => 0
  | accts, groups, u :: r =>
    (if rg = u.rg then (accountedUsage abmfUp rfUp tariffs supi trigs groups u : Int) else 0) +
    accountedList abmfUp rfUp tariffs supi trigs rg (acctsNext abmfUp rfUp tariffs supi trigs accts groups u)
      (usageStep (seenEnv abmfUp rfUp accts tariffs) supi trigs groups u).2.1 r

/-- side conditions of one operation whatever can be reached (`opOKb` without "rating and account servers reachable") -/
def opOKx (s : State) (op : Op) : Bool :=
  match chargedUsages s op with
  | some (supi, trigs, groups, us) => ccOKx s.abmfUp s.rfUp s.tariffs supi trigs s.accts groups us
  | none => true

/-- money booked by the operation for (supi, rg) -/
def accountedOp (s : State) (op : Op) (supi : Bytes) (rg : Int) : Int :=
  match chargedUsages s op with
  | some (supi', trigs, groups, us) =>
    if supi' = supi then accountedList s.abmfUp s.rfUp s.tariffs supi trigs rg s.accts groups us else 0
  | none => 0


/-! ### the grant ledger (C06): last granted volume per rating group of one subscriber -/

abbrev Ledger := List (Int × Nat)

def lastGrant : Ledger → Int → Nat
  | [], _ => 0
  | (k, v) :: r, rg => if k = rg then v else lastGrant r rg

def setGrant : Ledger → Int → Nat → Ledger
  | [], rg, g => [(rg, g)]
  | (k, v) :: r, rg, g => if k = rg then (k, g) :: r else (k, v) :: setGrant r rg g

/-- ledger after one usage has been answered -/
def ledgerStep (L : Ledger) (u : Usage) (m : Option Mui) : Ledger :=
  match m with
  | some x => setGrant L u.rg x.granted
  | none => L

/-- "the consumer never reports more usage than it was last granted", along one request -/
def compliantCC (tariffs : List Rating.Tariff) (supi : Bytes) (trigs : List Nat) :
    Abmf.Store → List (Int × RgState) → Ledger → List Usage → Bool
  | _, _, _, [] => true
  | accts, groups, L, u :: r =>
    (!anyOnline u.cs || decide (totalUsed u.cs ≤ lastGrant L u.rg)) &&
    compliantCC tariffs supi trigs
      (usageStep { accts := accts, tariffs := tariffs } supi trigs groups u).1
      (usageStep { accts := accts, tariffs := tariffs } supi trigs groups u).2.1
      (ledgerStep L u (usageStep { accts := accts, tariffs := tariffs } supi trigs groups u).2.2) r

/-- the ledger after a whole request -/
def ledgerCC (tariffs : List Rating.Tariff) (supi : Bytes) (trigs : List Nat) :
    Abmf.Store → List (Int × RgState) → Ledger → List Usage → Ledger
  | _, _, L, [] => L
  | accts, groups, L, u :: r =>
    ledgerCC tariffs supi trigs
      (usageStep { accts := accts, tariffs := tariffs } supi trigs groups u).1
      (usageStep { accts := accts, tariffs := tariffs } supi trigs groups u).2.1
      (ledgerStep L u (usageStep { accts := accts, tariffs := tariffs } supi trigs groups u).2.2) r


/-! ### ledgers of all subscribers along a history -/

abbrev Ledgers := List (Bytes × Ledger)

def ledgerOf : Ledgers → Bytes → Ledger
  | [], _ => []
  | (k, v) :: r, supi => if k = supi then v else ledgerOf r supi

def setLedger : Ledgers → Bytes → Ledger → Ledgers
  | [], supi, l => [(supi, l)]
  | (k, v) :: r, supi, l => if k = supi then (k, l) :: r else (k, v) :: setLedger r supi l

/-- the consumer is compliant on this operation (and an external credit does not take money away) -/
def opCompliantB (s : State) (Ls : Ledgers) (op : Op) : Bool :=
  match chargedUsages s op with
  | some (supi, trigs, groups, us) => compliantCC (seenTariffs s) supi trigs (seenAccts s) groups (ledgerOf Ls supi) us
  | none => match op with
    | .credit _ _ amt => decide (0 ≤ amt)
    | _ => true

def ledgersStep (s : State) (Ls : Ledgers) (op : Op) : Ledgers :=
  match chargedUsages s op with
  | some (supi, trigs, groups, us) =>
    setLedger Ls supi (ledgerCC (seenTariffs s) supi trigs (seenAccts s) groups (ledgerOf Ls supi) us)
  | none => Ls

end Chf.Charging
