import ChfVerif.Model.Ber
/-
  Reference side for C04, written from ITU-T X.690 (BER, definite lengths) and sharing no
  encoding routine with Model/Ber.lean (it reuses only the descriptions of types, values and
  field parameters):

  * `encode`  — an encoder: minimal two's-complement INTEGER/ENUMERATED contents (8.3), BOOLEAN
    00/FF (8.2 + DER-style FF), BIT STRING with leading unused-bits octet (8.6), identifier octets
    with low/high tag-number form (8.1.2), length octets short/long minimal (8.1.3), IMPLICIT and
    EXPLICIT context tags (8.14), absent OPTIONAL members omitted, CHOICE = its alternative (8.13).
  * `wellFormed` — a generic walker that accepts exactly one well-formed definite-length element:
    minimal tag-number and length octets, constructed contents made of well-formed elements whose
    lengths sum exactly to the parent's, and the primitive universal types checked for their content
    rules (BOOLEAN one octet 00/FF, INTEGER/ENUMERATED minimal, BIT STRING unused bits 0..7, NULL empty).
-/
namespace Chf.X690
open Chf Chf.Ber

/-! ### encoder -/

/-- number of octets of the shortest two's-complement representation -/
def intWidth (i : Int) : Nat → Nat
  | 0 => 9
  | fuel + 1 =>
    let n := 9 - (fuel + 1)          -- candidates 1, 2, …, 8 in increasing order
    if -(2 : Int) ^ (8 * n - 1) ≤ i ∧ i < (2 : Int) ^ (8 * n - 1) then n else intWidth i fuel

/-- big-endian octets of a natural number, exactly `n` of them -/
def natOctets (x : Nat) : Nat → Bytes
  | 0 => []
  | n + 1 => (x / 256 ^ n % 256) :: natOctets x n

def integerContents (i : Int) : Bytes :=
  let n := intWidth i 8
  natOctets (i % (2 : Int) ^ (8 * n)).toNat n

/-- base-128 digits, most significant first, no leading zero digit -/
def base128 (t : Nat) : Nat → List Nat
  | 0 => []
  | fuel + 1 => if t < 128 then [t] else base128 (t / 128) fuel ++ [t % 128]

def identifier (cls : Nat) (constructed : Bool) (tag : Nat) : Bytes :=
  let lead := 64 * cls + (if constructed then 32 else 0)
  if tag < 31 then [lead + tag]
  else
    let ds := base128 tag 11
    (lead + 31) :: (ds.dropLast.map (fun d => 128 + d) ++ ds.drop (ds.length - 1))

/-- big-endian octets without leading zero -/
def base256 (l : Nat) : Nat → List Nat
  | 0 => []
  | fuel + 1 => if l < 256 then [l] else base256 (l / 256) fuel ++ [l % 256]

def lengthOctets (l : Nat) : Bytes :=
  if l < 128 then [l] else let ds := base256 l 9; (128 + ds.length) :: ds

def element (cls : Nat) (constructed : Bool) (tag : Nat) (contents : Bytes) : Bytes :=
  identifier cls constructed tag ++ lengthOctets contents.length ++ contents

/-- apply the declared tagging to an element of universal tag `tag` -/
def tagged (p : Params) (constructed : Bool) (tag : Nat) (contents : Bytes) : Bytes :=
  match p.tagNumber with
  | none => element 0 constructed tag contents
  | some n =>
    if p.explicit then element 2 true n (element 0 constructed tag contents)   -- EXPLICIT: wrap
    else element 2 constructed n contents                                       -- IMPLICIT: replace

mutual
def encode : Ty → Params → Val → Option Bytes
  | .ptr _, _, .nil => none
  | .ptr t, p, v => encode t p v
  | .wrap t, p, v => encode t p v
  | .bool, p, .bool b => some (tagged p false 1 [if b then 255 else 0])
  | .int _, p, .int i => some (tagged p false 2 (integerContents i))
  | .enum, p, .int i => some (tagged p false 10 (integerContents i))
  | .bits, p, .bits b n => some (tagged p false 3 ((if n % 8 = 0 then 0 else 8 - n % 8) :: b))
  | .octets, p, .bytes b => some (tagged p false 4 b)
  | .octets, p, .nil => some (tagged p false 4 [])
  | .null, p, .null _ => some (tagged p false 5 [])
  | .str d, p, .str b => some (tagged p false (if p.stringType = 0 then d else p.stringType) b)
  | .choice alts, p, .choice present vs =>
    if present ≤ 0 ∨ p.openType then none
    else
      match encodeAlt alts vs (present.toNat - 1) with
      | some inner =>
        (match p.tagNumber with
         | none => some inner                                -- untagged CHOICE: the alternative itself
         | some n => some (element 2 true n inner))          -- tagged CHOICE: always explicit
      | none => none
  | .struct fs, p, .struct vs =>
    if fs.length = 0 then none
    else match encodeMembers fs vs with
      | some c => some (tagged p true (if p.set then 17 else 16) c)
      | none => none
  | .slice t, p, .list vs =>
    (match encodeList t { p with tagNumber := none } vs with
     | some c => some (tagged p true (if p.set then 17 else 16) c)
     | none => none)
  | .slice _, p, .nil => some (tagged p true (if p.set then 17 else 16) [])
  | _, _, _ => none
termination_by t _ v => sizeOf t + sizeOf v

def encodeAlt : Fields → Vals → Nat → Option Bytes
  | .cons p t _, .cons v _, 0 => encode t p v
  | .cons _ _ r, .cons _ vs, n + 1 => encodeAlt r vs n
  | _, _, _ => none
termination_by fs vs _ => sizeOf fs + sizeOf vs

def encodeMembers : Fields → Vals → Option Bytes
  | .nil, _ => some []
  | .cons p t r, .cons v vs =>
    if p.optional ∧ isNilVal v then encodeMembers r vs      -- absent OPTIONAL member: omitted
    else if p.openType then none
    else
      match encode t p v, encodeMembers r vs with
      | some a, some b => some (a ++ b)
      | _, _ => none
  | .cons _ _ _, .nil => none
termination_by fs vs => sizeOf fs + sizeOf vs

def encodeList : Ty → Params → Vals → Option Bytes
  | _, _, .nil => some []
  | t, p, .cons v vs =>
    match encode t p v, encodeList t p vs with
    | some a, some b => some (a ++ b)
    | _, _ => none
termination_by t _ vs => sizeOf t + sizeOf vs
end

/-! ### well-formedness walker -/

structure Hdr where
  cls : Nat
  constructed : Bool
  tag : Nat
  len : Nat
  size : Nat      -- number of identifier + length octets
deriving Repr

/-- subsequent identifier octets of the high-tag-number form: (value, octets consumed) -/
def readBase128 : Bytes → Nat → Nat → Option (Nat × Nat)
  | [], _, _ => none
  | x :: r, acc, n =>
    if x ≥ 128 then readBase128 r (acc * 128 + (x - 128)) (n + 1) else some (acc * 128 + x, n + 1)

def readBase256 : Bytes → Nat → Nat
  | [], acc => acc
  | x :: r, acc => readBase256 r (acc * 256 + x)

/-- identifier and length octets, accepting only the minimal forms -/
def readHeader (b : Bytes) : Option Hdr :=
  match b with
  | [] => none
  | b0 :: r =>
    let cls := b0 / 64
    let cons := b0 / 32 % 2 = 1
    let tagPart : Option (Nat × Nat × Bytes) :=
      if b0 % 32 < 31 then some (b0 % 32, 1, r)
      else
        match r with
        | [] => none
        | x :: _ =>
          if x = 128 then none                                   -- leading zero digit
          else match readBase128 r 0 0 with
            | some (t, n) => if t < 31 then none else some (t, 1 + n, r.drop n)   -- must need the high form
            | none => none
    match tagPart with
    | none => none
    | some (tag, used, rest) =>
      match rest with
      | [] => none
      | l0 :: rest' =>
        if l0 < 128 then some ⟨cls, cons, tag, l0, used + 1⟩
        else if l0 = 128 ∨ l0 = 255 then none                     -- indefinite / reserved
        else
          let n := l0 - 128
          if rest'.length < n then none
          else
            let ds := rest'.take n
            if ds.head? = some 0 then none                        -- leading zero length octet
            else
              let l := readBase256 ds 0
              if l < 128 then none                                -- long form for a short length
              else some ⟨cls, cons, tag, l, used + 1 + n⟩

def minimalInt (c : Bytes) : Bool :=
  match c with
  | [] => false
  | [_] => true
  | a :: b :: _ => ¬ ((a = 0 ∧ b < 128) ∨ (a = 255 ∧ b ≥ 128))

def primitiveOk (tag : Nat) (c : Bytes) : Bool :=
  if tag = 1 then c = [0] ∨ c = [255]
  else if tag = 2 ∨ tag = 10 then minimalInt c
  else if tag = 3 then
    (match c with
     | [] => false
     | [u] => u = 0
     | u :: _ => u ≤ 7)
  else if tag = 5 then c = []
  else true

mutual
/-- exactly one well-formed element -/
def wellFormedFuel : Nat → Bytes → Bool
  | 0, _ => false
  | fuel + 1, b =>
    match readHeader b with
    | none => false
    | some h =>
      b.length = h.size + h.len &&
      (let c := b.drop h.size
       if h.constructed then wellFormedSeq fuel c
       else if h.cls = 0 then primitiveOk h.tag c
       else true)
/-- a concatenation of well-formed elements -/
def wellFormedSeq : Nat → Bytes → Bool
  | 0, b => b.length = 0
  | fuel + 1, b =>
    if b.length = 0 then true
    else
      match readHeader b with
      | none => false
      | some h =>
        h.size + h.len ≤ b.length &&
        wellFormedFuel fuel (b.take (h.size + h.len)) && wellFormedSeq fuel (b.drop (h.size + h.len))
end

def wellFormed (b : Bytes) : Bool := wellFormedFuel (b.length + 1) b

end Chf.X690
