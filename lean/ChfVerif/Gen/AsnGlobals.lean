/- GENERATED from the repository's working tree by `verifharness dump-tables asnglobals` — do not edit. -/
import ChfVerif.Model.CodecState
namespace Chf.Gen
open Chf.CodecState

/-- every package-level variable of cdr/asn: name, kind (0 reflect.Type handle, 1 scalar, 2 reference, 3 other),
    assignments, address-of, method calls, hand-ons of the bare variable (all outside init), writes from other packages -/
def asnGlobals : List GlobalVar := [
  ⟨"asn_type.go:BitStringType", 0, 0, 0, 0, 0, 0⟩,
  ⟨"asn_type.go:EnumeratedType", 0, 0, 0, 0, 0, 0⟩,
  ⟨"asn_type.go:GraphicStringType", 0, 0, 0, 0, 0, 0⟩,
  ⟨"asn_type.go:IA5StringType", 0, 0, 0, 0, 0, 0⟩,
  ⟨"asn_type.go:NullType", 0, 0, 0, 0, 0, 0⟩,
  ⟨"asn_type.go:ObjectIdentifierType", 0, 0, 0, 0, 0, 0⟩,
  ⟨"asn_type.go:OctetStringType", 0, 0, 0, 0, 0, 0⟩,
  ⟨"asn_type.go:UTF8StringType", 0, 0, 0, 0, 0, 0⟩
]

/-- every package-level variable of cdr/cdrFile: name, kind (0 reflect.Type handle, 1 scalar, 2 reference, 3 other),
    assignments, address-of, method calls, hand-ons of the bare variable (all outside init), writes from other packages -/
def cdrFileGlobals : List GlobalVar := [

]

end Chf.Gen
