/- GENERATED from the repository's working tree by `verifharness dump-tables diamclient` — do not edit. -/
import ChfVerif.Model.DiamClient
namespace Chf.Gen
open Chf.DiamClient

/-- every call of the two client functions outside their own packages: file, enclosing function, callee,
    whether it runs outside the calling operation (go / defer / function literal, directly or through helpers) -/
structure CallSite where
  file : String
  fn : String
  callee : String
  async : Bool
deriving DecidableEq, Repr

def clientCallSites : List CallSite := [
  ⟨"internal/sbi/processor/converged_charging.go", "getUnitCost", "SendServiceUsageRequest", false⟩,
  ⟨"internal/sbi/processor/converged_charging.go", "sessionChargingReservation", "SendAccountDebitRequest", false⟩,
  ⟨"internal/sbi/processor/converged_charging.go", "sessionChargingReservation", "SendServiceUsageRequest", false⟩,
  ⟨"internal/sbi/processor/converged_charging.go", "sessionChargingReservation", "SendServiceUsageRequest", false⟩,
  ⟨"internal/sbi/processor/converged_charging.go", "sessionChargingReservation", "SendAccountDebitRequest", false⟩
]

/-- internal/abmf/abmf.go: SendAccountDebitRequest / HandleCCA; internal/context: the sm.Client in field "AbmfClient"; serial: no call site above is async -/
def abmfClient : Cfg := ⟨true, true, true, true, 5000, false, true, 0, true, true⟩

/-- internal/rating/rating.go: SendServiceUsageRequest / HandleSUA; internal/context: the sm.Client in field "RatingClient"; serial: no call site above is async -/
def ratingClient : Cfg := ⟨true, true, true, true, 5000, false, true, 0, true, true⟩

end Chf.Gen
