/- GENERATED from the repository's working tree by `verifharness dump-tables diamclient` — do not edit. -/
import ChfVerif.Model.DiamClient
namespace Chf.Gen
open Chf.DiamClient

/-- internal/abmf/abmf.go: SendAccountDebitRequest / HandleCCA; internal/context: the sm.Client in field "AbmfClient" -/
def abmfClient : Cfg := ⟨true, true, true, true, 5000, false, true, 0⟩

/-- internal/rating/rating.go: SendServiceUsageRequest / HandleSUA; internal/context: the sm.Client in field "RatingClient" -/
def ratingClient : Cfg := ⟨true, true, true, true, 5000, false, true, 0⟩

end Chf.Gen
