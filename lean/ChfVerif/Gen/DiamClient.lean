/- GENERATED from the repository's working tree by `verifharness dump-tables diamclient` — do not edit. -/
import ChfVerif.Model.DiamClient
namespace Chf.Gen
open Chf.DiamClient

/-- internal/abmf/abmf.go: SendAccountDebitRequest / HandleCCA -/
def abmfClient : Cfg := ⟨false, true, true, false, 5000⟩

/-- internal/rating/rating.go: SendServiceUsageRequest / HandleSUA -/
def ratingClient : Cfg := ⟨true, true, true, true, 5000⟩

end Chf.Gen
