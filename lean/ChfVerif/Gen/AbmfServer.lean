/- GENERATED from the repository's working tree by `verifharness dump-tables abmfserver` — do not edit. -/
namespace Chf.Gen

/-- pkg/abmf/abmf.go: handleCCR — how the read-modify-write of an account is bracketed -/
structure AbmfServerFacts where
  lockBeforeRead : Bool
  heldToReturn : Bool
  perAccount : Bool
  readsAndWrites : Bool
deriving DecidableEq, Repr

def abmfServer : AbmfServerFacts := ⟨true, true, true, true⟩

end Chf.Gen
