/- GENERATED from the repository's working tree by `verifharness dump-tables cdrfile` — do not edit. -/
import ChfVerif.Model.CdrFile
namespace Chf.Gen
open Chf.CdrFile

/-- every call in CDRFile.Encoding that opens or writes the destination file (go/ast):
    does it discard the old content (os.WriteFile, os.Create, O_TRUNC), does it append (O_APPEND) -/
def encodingWrites : List WriteMode := [
  ⟨true, false⟩   -- os.WriteFile(fileName, buf.Bytes(), 0o666)
]

/-- the one the model's file system uses -/
def encodingWrite : WriteMode := encodingWrites.headD ⟨false, false⟩

end Chf.Gen
