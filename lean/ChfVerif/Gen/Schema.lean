/- GENERATED from the repository's working tree by `verifharness dump-tables schema` — do not edit. -/
import ChfVerif.Model.Ber
namespace Chf.Gen
open Chf.Ber

def T_AFChargingID : Ty := (.wrap (.str 12))
def T_AMFID : Ty := (.wrap .octets)
def T_APIDirection : Ty := (.wrap .enum)
def T_APIResultCode : Ty := (.wrap (.int 64))
def T_ATSSSCapability : Ty := (.wrap .enum)
def T_AccessType : Ty := (.wrap .enum)
def T_AddressString : Ty := (.wrap .octets)
def T_AdministrativeState : Ty := (.wrap .enum)
def T_AgeOfLocationInformation : Ty := (.wrap (.int 64))
def T_PreemptionVulnerability : Ty := (.wrap .enum)
def T_PreemptionCapability : Ty := (.wrap .enum)
def T_AllocationRetentionPriority : Ty := (.struct (.cons ⟨false, some 1, false, false, false, 0⟩ (.int 64) (.cons ⟨false, some 2, false, false, false, 0⟩ T_PreemptionCapability (.cons ⟨false, some 3, false, false, false, 0⟩ T_PreemptionVulnerability .nil))))
def T_AmfUeNgapId : Ty := (.wrap (.int 64))
def T_TAC : Ty := (.wrap .octets)
def T_Area : Ty := (.struct (.cons ⟨true, some 0, false, false, false, 0⟩ (.slice T_TAC) (.cons ⟨true, some 1, false, false, false, 0⟩ (.ptr .octets) .nil)))
def T_AuthorizedQoSInformation : Ty := (.struct (.cons ⟨true, some 1, false, false, false, 0⟩ (.ptr (.int 64)) (.cons ⟨true, some 2, false, false, false, 0⟩ (.ptr T_AllocationRetentionPriority) (.cons ⟨true, some 3, false, false, false, 0⟩ (.ptr (.int 64)) (.cons ⟨true, some 4, false, false, false, 0⟩ (.ptr (.int 64)) (.cons ⟨true, some 5, false, false, false, 0⟩ (.ptr (.int 64)) .nil))))))
def T_Bitrate : Ty := (.wrap .octets)
def T_ChargingID : Ty := (.wrap (.int 64))
def T_SliceDifferentiator : Ty := (.wrap .octets)
def T_SliceServiceType : Ty := (.wrap (.int 64))
def T_SingleNSSAI : Ty := (.struct (.cons ⟨false, some 0, false, false, false, 0⟩ T_SliceServiceType (.cons ⟨true, some 1, false, false, false, 0⟩ (.ptr T_SliceDifferentiator) .nil)))
def T_NSPAChargingInformation : Ty := (.struct (.cons ⟨false, some 0, false, false, false, 0⟩ T_SingleNSSAI .nil))
def T_OperationalState : Ty := (.wrap .enum)
def T_ManagementOperationStatus : Ty := (.wrap .enum)
def T_V2XCommunicationModeIndicator : Ty := (.wrap .enum)
def T_Throughput : Ty := (.struct (.cons ⟨false, some 0, false, false, false, 0⟩ T_Bitrate (.cons ⟨false, some 1, false, false, false, 0⟩ T_Bitrate .nil)))
def T_DelayToleranceIndicator : Ty := (.wrap .enum)
def T_MobilityLevel : Ty := (.wrap .enum)
def T_SharingLevel : Ty := (.wrap .enum)
def T_ServiceProfileChargingInformation : Ty := (.struct (.cons ⟨true, some 0, false, false, false, 0⟩ (.ptr .octets) (.cons ⟨true, some 1, false, false, false, 0⟩ (.slice T_SingleNSSAI) (.cons ⟨true, some 2, false, false, false, 0⟩ (.ptr T_SliceServiceType) (.cons ⟨true, some 3, false, false, false, 0⟩ (.ptr (.int 64)) (.cons ⟨true, some 4, false, false, false, 0⟩ (.ptr (.int 64)) (.cons ⟨true, some 5, false, false, false, 0⟩ (.ptr T_SharingLevel) (.cons ⟨true, some 6, false, false, false, 0⟩ (.ptr (.int 64)) (.cons ⟨true, some 7, false, false, false, 0⟩ (.ptr .octets) (.cons ⟨true, some 8, false, false, false, 0⟩ (.ptr (.int 64)) (.cons ⟨true, some 9, false, false, false, 0⟩ (.ptr .octets) (.cons ⟨true, some 10, false, false, false, 0⟩ (.ptr T_MobilityLevel) (.cons ⟨true, some 11, false, false, false, 0⟩ (.ptr T_DelayToleranceIndicator) (.cons ⟨true, some 12, false, false, false, 0⟩ (.ptr T_Throughput) (.cons ⟨true, some 13, false, false, false, 0⟩ (.ptr T_Throughput) (.cons ⟨true, some 14, false, false, false, 0⟩ (.ptr T_Throughput) (.cons ⟨true, some 15, false, false, false, 0⟩ (.ptr T_Throughput) (.cons ⟨true, some 16, false, false, false, 0⟩ (.ptr (.int 64)) (.cons ⟨true, some 17, false, false, false, 0⟩ (.ptr .octets) (.cons ⟨true, some 18, false, false, false, 0⟩ (.ptr (.int 64)) (.cons ⟨true, some 19, false, false, false, 0⟩ (.ptr T_V2XCommunicationModeIndicator) (.cons ⟨true, some 100, false, false, false, 0⟩ (.ptr .octets) .nil))))))))))))))))))))))
def T_ManagementOperation : Ty := (.wrap .enum)
def T_NSMChargingInformation : Ty := (.struct (.cons ⟨true, some 0, false, false, false, 0⟩ (.ptr T_ManagementOperation) (.cons ⟨true, some 1, false, false, false, 0⟩ (.ptr .octets) (.cons ⟨true, some 2, false, false, false, 0⟩ (.slice T_ServiceProfileChargingInformation) (.cons ⟨true, some 3, false, false, false, 0⟩ (.ptr T_ManagementOperationStatus) (.cons ⟨true, some 4, false, false, false, 0⟩ (.ptr T_OperationalState) (.cons ⟨true, some 5, false, false, false, 0⟩ (.ptr T_AdministrativeState) .nil)))))))
def T_MnSConsumerIdentifier : Ty := (.wrap .octets)
def T_TenantIdentifier : Ty := (.wrap .octets)
def T_IncompleteCDRIndication : Ty := (.struct (.cons ⟨true, some 0, false, false, false, 0⟩ (.ptr .bool) (.cons ⟨true, some 1, false, false, false, 0⟩ (.ptr .bool) (.cons ⟨true, some 2, false, false, false, 0⟩ (.ptr .bool) .nil))))
def T_GCI : Ty := (.wrap (.str 12))
def T_GLI : Ty := (.wrap (.str 12))
def T_LineType : Ty := (.wrap .enum)
def T_HFCNodeId : Ty := (.wrap (.str 12))
def T_TWAPId : Ty := (.wrap (.str 12))
def T_TNAPId : Ty := (.wrap (.str 12))
def T_PDPAddressPrefixLength : Ty := (.wrap (.int 64))
def T_IPBinV6Address : Ty := (.wrap .octets)
def T_IPBinV6AddressWithPrefixLength : Ty := (.struct (.cons ⟨false, none, false, false, false, 0⟩ T_IPBinV6Address (.cons ⟨true, none, false, false, false, 0⟩ (.ptr T_PDPAddressPrefixLength) .nil)))
def T_IPBinV4Address : Ty := (.wrap .octets)
def T_IPAddress : Ty := (.choice (.cons ⟨false, some 0, false, false, false, 0⟩ (.ptr T_IPBinV4Address) (.cons ⟨false, some 1, false, false, false, 0⟩ (.ptr T_IPBinV6Address) (.cons ⟨false, some 2, false, false, false, 0⟩ (.ptr (.str 22)) (.cons ⟨false, some 3, false, false, false, 0⟩ (.ptr (.str 22)) (.cons ⟨false, some 4, false, false, false, 0⟩ (.ptr T_IPBinV6AddressWithPrefixLength) .nil))))))
def T_N3IwFId : Ty := (.wrap (.str 22))
def T_PLMNId : Ty := (.wrap .octets)
def T_TAI : Ty := (.struct (.cons ⟨false, some 0, false, false, false, 0⟩ T_PLMNId (.cons ⟨false, some 1, false, false, false, 0⟩ T_TAC .nil)))
def T_N3gaLocation : Ty := (.struct (.cons ⟨true, some 0, false, false, false, 0⟩ (.ptr T_TAI) (.cons ⟨true, some 1, false, false, false, 0⟩ (.ptr T_N3IwFId) (.cons ⟨true, some 2, false, false, false, 0⟩ (.ptr T_IPAddress) (.cons ⟨true, some 3, false, false, false, 0⟩ (.ptr T_IPAddress) (.cons ⟨true, some 4, false, false, false, 0⟩ (.ptr (.int 64)) (.cons ⟨true, some 5, false, false, false, 0⟩ (.ptr T_TNAPId) (.cons ⟨true, some 6, false, false, false, 0⟩ (.ptr T_TWAPId) (.cons ⟨true, some 7, false, false, false, 0⟩ (.ptr T_HFCNodeId) (.cons ⟨true, some 8, false, false, false, 0⟩ (.ptr T_LineType) (.cons ⟨true, some 9, false, false, false, 0⟩ (.ptr T_GLI) (.cons ⟨true, some 10, false, false, false, 0⟩ (.ptr T_GCI) .nil))))))))))))
def T_ENbId : Ty := (.wrap (.str 12))
def T_Nid : Ty := (.wrap (.str 12))
def T_TngfId : Ty := (.wrap (.str 12))
def T_WAgfId : Ty := (.wrap (.str 12))
def T_NgeNbId : Ty := (.wrap (.str 22))
def T_GNbId : Ty := (.struct (.cons ⟨false, some 0, false, false, false, 0⟩ (.int 64) (.cons ⟨false, some 1, false, false, false, 0⟩ (.str 22) .nil)))
def T_GlobalRanNodeId : Ty := (.struct (.cons ⟨true, some 0, false, false, false, 0⟩ (.ptr T_PLMNId) (.cons ⟨true, some 1, false, false, false, 0⟩ (.ptr T_N3IwFId) (.cons ⟨true, some 2, false, false, false, 0⟩ (.ptr T_GNbId) (.cons ⟨true, some 3, false, false, false, 0⟩ (.ptr T_NgeNbId) (.cons ⟨true, some 4, false, false, false, 0⟩ (.ptr T_WAgfId) (.cons ⟨true, some 5, false, false, false, 0⟩ (.ptr T_TngfId) (.cons ⟨true, some 6, false, false, false, 0⟩ (.ptr T_Nid) (.cons ⟨true, some 7, false, false, false, 0⟩ (.ptr T_ENbId) .nil)))))))))
def T_GeodeticInformation : Ty := (.wrap (.str 12))
def T_GeographicalInformation : Ty := (.wrap (.str 12))
def T_TimeStamp : Ty := (.wrap .octets)
def T_NrCellId : Ty := (.wrap (.str 12))
def T_Ncgi : Ty := (.struct (.cons ⟨false, some 0, false, false, false, 0⟩ T_PLMNId (.cons ⟨false, some 1, false, false, false, 0⟩ T_NrCellId (.cons ⟨true, some 2, false, false, false, 0⟩ (.ptr T_Nid) .nil))))
def T_NrLocation : Ty := (.struct (.cons ⟨true, some 0, false, false, false, 0⟩ (.ptr T_TAI) (.cons ⟨true, some 1, false, false, false, 0⟩ (.ptr T_Ncgi) (.cons ⟨true, some 2, false, false, false, 0⟩ (.ptr T_AgeOfLocationInformation) (.cons ⟨true, some 3, false, false, false, 0⟩ (.ptr T_TimeStamp) (.cons ⟨true, some 4, false, false, false, 0⟩ (.ptr T_GeographicalInformation) (.cons ⟨true, some 5, false, false, false, 0⟩ (.ptr T_GeodeticInformation) (.cons ⟨true, some 6, false, false, false, 0⟩ (.ptr T_GlobalRanNodeId) .nil))))))))
def T_EutraCellId : Ty := (.wrap (.str 12))
def T_Ecgi : Ty := (.struct (.cons ⟨false, some 0, false, false, false, 0⟩ T_PLMNId (.cons ⟨false, some 1, false, false, false, 0⟩ T_EutraCellId (.cons ⟨true, some 2, false, false, false, 0⟩ (.ptr T_Nid) .nil))))
def T_EutraLocation : Ty := (.struct (.cons ⟨true, some 0, false, false, false, 0⟩ (.ptr T_TAI) (.cons ⟨true, some 1, false, false, false, 0⟩ (.ptr T_Ecgi) (.cons ⟨true, some 3, false, false, false, 0⟩ (.ptr T_AgeOfLocationInformation) (.cons ⟨true, some 4, false, false, false, 0⟩ (.ptr T_TimeStamp) (.cons ⟨true, some 5, false, false, false, 0⟩ (.ptr T_GeographicalInformation) (.cons ⟨true, some 6, false, false, false, 0⟩ (.ptr T_GeodeticInformation) (.cons ⟨true, some 7, false, false, false, 0⟩ (.ptr T_GlobalRanNodeId) (.cons ⟨true, some 8, false, false, false, 0⟩ (.ptr T_GlobalRanNodeId) .nil)))))))))
def T_UserLocationInformationStructured : Ty := (.struct (.cons ⟨true, some 0, false, false, false, 0⟩ (.ptr T_EutraLocation) (.cons ⟨true, some 1, false, false, false, 0⟩ (.ptr T_NrLocation) (.cons ⟨true, some 2, false, false, false, 0⟩ (.ptr T_N3gaLocation) .nil))))
def T_PSCellInformation : Ty := (.struct (.cons ⟨true, some 0, false, false, false, 0⟩ (.ptr T_Ncgi) (.cons ⟨true, some 1, false, false, false, 0⟩ (.ptr T_Ecgi) .nil)))
def T_RATType : Ty := (.wrap (.int 64))
def T_PresenceReportingAreaNode : Ty := (.wrap .bits)
def T_PresenceReportingAreaElementsList : Ty := (.wrap .octets)
def T_PresenceReportingAreaStatus : Ty := (.wrap .enum)
def T_PresenceReportingAreaInfo : Ty := (.struct (.cons ⟨false, some 0, false, false, false, 0⟩ .octets (.cons ⟨true, some 1, false, false, false, 0⟩ (.ptr T_PresenceReportingAreaStatus) (.cons ⟨true, some 2, false, false, false, 0⟩ (.ptr T_PresenceReportingAreaElementsList) (.cons ⟨true, some 3, false, false, false, 0⟩ (.ptr T_PresenceReportingAreaNode) .nil)))))
def T_MSTimeZone : Ty := (.wrap .octets)
def T_UserLocationInformation : Ty := (.wrap .octets)
def T_RoamerInOut : Ty := (.wrap .enum)
def T_SubscriberEquipmentType : Ty := (.wrap .enum)
def T_SubscriberEquipmentNumber : Ty := (.struct (.cons ⟨false, some 0, false, false, false, 0⟩ T_SubscriberEquipmentType (.cons ⟨false, some 1, false, false, false, 0⟩ .octets .nil)))
def T_InvolvedParty : Ty := (.choice (.cons ⟨false, some 0, false, false, false, 0⟩ (.ptr (.str 25)) (.cons ⟨false, some 1, false, false, false, 0⟩ (.ptr (.str 25)) (.cons ⟨false, some 2, false, false, false, 0⟩ (.ptr (.str 25)) (.cons ⟨false, some 3, false, false, false, 0⟩ (.ptr (.str 25)) (.cons ⟨false, some 4, false, false, false, 0⟩ (.ptr (.str 12)) .nil))))))
def T_LocationReportingMessageType : Ty := (.wrap (.int 64))
def T_LocationReportingChargingInformation : Ty := (.struct (.cons ⟨false, some 0, false, false, false, 0⟩ T_LocationReportingMessageType (.cons ⟨true, some 1, false, false, false, 0⟩ (.ptr T_InvolvedParty) (.cons ⟨true, some 2, false, false, false, 0⟩ (.ptr T_SubscriberEquipmentNumber) (.cons ⟨true, some 3, false, false, false, 0⟩ (.ptr .null) (.cons ⟨true, some 4, false, false, false, 0⟩ (.ptr T_RoamerInOut) (.cons ⟨true, some 5, false, false, false, 0⟩ (.ptr T_UserLocationInformation) (.cons ⟨true, some 6, false, false, false, 0⟩ (.ptr T_TimeStamp) (.cons ⟨true, some 7, false, false, false, 0⟩ (.ptr T_MSTimeZone) (.cons ⟨true, some 8, false, false, false, 0⟩ (.ptr T_PresenceReportingAreaInfo) (.cons ⟨true, some 9, false, false, false, 0⟩ (.ptr T_RATType) (.cons ⟨true, some 10, false, false, false, 0⟩ (.ptr T_PSCellInformation) (.cons ⟨true, some 11, false, false, false, 0⟩ (.ptr T_UserLocationInformationStructured) .nil)))))))))))))
def T_RrcEstablishmentCause : Ty := (.wrap .octets)
def T_CoreNetworkType : Ty := (.wrap .enum)
def T_RestrictionType : Ty := (.wrap .enum)
def T_ServiceAreaRestriction : Ty := (.struct (.cons ⟨true, some 0, false, false, false, 0⟩ (.ptr T_RestrictionType) (.cons ⟨true, some 1, false, false, false, 0⟩ (.slice T_Area) (.cons ⟨true, some 2, false, false, false, 0⟩ (.ptr (.int 64)) (.cons ⟨true, some 3, false, false, false, 0⟩ (.ptr (.int 64)) .nil)))))
def T_RanUeNgapId : Ty := (.wrap (.int 64))
def T_N2ConnectionMessageType : Ty := (.wrap (.int 64))
def T_N2ConnectionChargingInformation : Ty := (.struct (.cons ⟨false, some 0, false, false, false, 0⟩ T_N2ConnectionMessageType (.cons ⟨true, some 1, false, false, false, 0⟩ (.ptr T_InvolvedParty) (.cons ⟨true, some 2, false, false, false, 0⟩ (.ptr T_SubscriberEquipmentNumber) (.cons ⟨true, some 3, false, false, false, 0⟩ (.ptr .null) (.cons ⟨true, some 4, false, false, false, 0⟩ (.ptr T_RoamerInOut) (.cons ⟨true, some 5, false, false, false, 0⟩ (.ptr T_UserLocationInformation) (.cons ⟨true, some 6, false, false, false, 0⟩ (.ptr T_TimeStamp) (.cons ⟨true, some 7, false, false, false, 0⟩ (.ptr T_MSTimeZone) (.cons ⟨true, some 8, false, false, false, 0⟩ (.ptr T_RATType) (.cons ⟨true, some 9, false, false, false, 0⟩ (.ptr T_RanUeNgapId) (.cons ⟨true, some 10, false, false, false, 0⟩ (.ptr T_GlobalRanNodeId) (.cons ⟨true, some 11, false, false, false, 0⟩ (.slice T_RATType) (.cons ⟨true, some 12, false, false, false, 0⟩ (.slice T_Area) (.cons ⟨true, some 13, false, false, false, 0⟩ (.ptr T_ServiceAreaRestriction) (.cons ⟨true, some 14, false, false, false, 0⟩ (.slice T_CoreNetworkType) (.cons ⟨true, some 15, false, false, false, 0⟩ (.slice T_SingleNSSAI) (.cons ⟨true, some 16, false, false, false, 0⟩ (.ptr T_RrcEstablishmentCause) (.cons ⟨true, some 17, false, false, false, 0⟩ (.ptr T_PSCellInformation) (.cons ⟨true, some 18, false, false, false, 0⟩ (.ptr T_AmfUeNgapId) (.cons ⟨true, some 19, false, false, false, 0⟩ (.ptr T_UserLocationInformationStructured) .nil)))))))))))))))))))))
def T_NSSAIMap : Ty := (.struct (.cons ⟨false, some 0, false, false, false, 0⟩ T_SingleNSSAI (.cons ⟨false, some 1, false, false, false, 0⟩ T_SingleNSSAI .nil)))
def T_FiveGMMCapability : Ty := (.wrap .octets)
def T_SmsIndication : Ty := (.wrap .enum)
def T_MICOModeIndication : Ty := (.wrap .enum)
def T_RegistrationMessageType : Ty := (.wrap .enum)
def T_RegistrationChargingInformation : Ty := (.struct (.cons ⟨false, some 0, false, false, false, 0⟩ T_RegistrationMessageType (.cons ⟨true, some 1, false, false, false, 0⟩ (.ptr T_InvolvedParty) (.cons ⟨true, some 2, false, false, false, 0⟩ (.ptr T_SubscriberEquipmentNumber) (.cons ⟨true, some 3, false, false, false, 0⟩ (.ptr .null) (.cons ⟨true, some 4, false, false, false, 0⟩ (.ptr T_RoamerInOut) (.cons ⟨true, some 5, false, false, false, 0⟩ (.ptr T_UserLocationInformation) (.cons ⟨true, some 6, false, false, false, 0⟩ (.ptr T_TimeStamp) (.cons ⟨true, some 7, false, false, false, 0⟩ (.ptr T_MSTimeZone) (.cons ⟨true, some 8, false, false, false, 0⟩ (.ptr T_RATType) (.cons ⟨true, some 9, false, false, false, 0⟩ (.ptr T_MICOModeIndication) (.cons ⟨true, some 10, false, false, false, 0⟩ (.ptr T_SmsIndication) (.cons ⟨true, some 11, false, false, false, 0⟩ (.slice T_TAI) (.cons ⟨true, some 12, false, false, false, 0⟩ (.ptr T_ServiceAreaRestriction) (.cons ⟨true, some 13, false, false, false, 0⟩ (.slice T_SingleNSSAI) (.cons ⟨true, some 14, false, false, false, 0⟩ (.slice T_SingleNSSAI) (.cons ⟨true, some 15, false, false, false, 0⟩ (.slice T_SingleNSSAI) (.cons ⟨true, some 16, false, false, false, 0⟩ (.ptr T_PSCellInformation) (.cons ⟨true, some 17, false, false, false, 0⟩ (.ptr T_FiveGMMCapability) (.cons ⟨true, some 18, false, false, false, 0⟩ (.slice T_NSSAIMap) (.cons ⟨true, some 19, false, false, false, 0⟩ (.ptr T_AmfUeNgapId) (.cons ⟨true, some 20, false, false, false, 0⟩ (.ptr T_RanUeNgapId) (.cons ⟨true, some 21, false, false, false, 0⟩ (.ptr T_GlobalRanNodeId) (.cons ⟨true, some 22, false, false, false, 0⟩ (.ptr T_UserLocationInformationStructured) .nil))))))))))))))))))))))))
def T_ExternalGroupIdentifier : Ty := (.wrap (.str 12))
def T_NodeAddress : Ty := (.choice (.cons ⟨false, some 0, false, false, false, 0⟩ (.ptr T_IPAddress) (.cons ⟨false, some 1, false, false, false, 0⟩ (.ptr (.str 25)) .nil)))
def T_NetworkFunctionName : Ty := (.wrap (.str 22))
def T_NetworkFunctionality : Ty := (.wrap .enum)
def T_NetworkFunctionInformation : Ty := (.struct (.cons ⟨false, some 0, false, false, false, 0⟩ T_NetworkFunctionality (.cons ⟨true, some 1, false, false, false, 0⟩ (.ptr T_NetworkFunctionName) (.cons ⟨true, some 2, false, false, false, 0⟩ (.ptr T_IPAddress) (.cons ⟨true, some 3, false, false, false, 0⟩ (.ptr T_PLMNId) (.cons ⟨true, some 4, false, false, false, 0⟩ (.ptr T_IPAddress) (.cons ⟨true, some 5, false, false, false, 0⟩ (.ptr T_NodeAddress) .nil)))))))
def T_ExposureFunctionAPIInformation : Ty := (.struct (.cons ⟨true, some 0, false, false, false, 0⟩ (.ptr T_AddressString) (.cons ⟨true, some 1, false, false, false, 0⟩ (.ptr T_APIDirection) (.cons ⟨true, some 2, false, false, false, 0⟩ (.ptr T_NetworkFunctionInformation) (.cons ⟨true, some 3, false, false, false, 0⟩ (.ptr T_APIResultCode) (.cons ⟨false, some 4, false, false, false, 0⟩ (.str 22) (.cons ⟨true, some 5, false, false, false, 0⟩ (.ptr (.str 22)) (.cons ⟨true, some 6, false, false, false, 0⟩ (.ptr .octets) (.cons ⟨true, some 7, false, false, false, 0⟩ (.ptr T_InvolvedParty) (.cons ⟨true, some 8, false, false, false, 0⟩ (.ptr T_ExternalGroupIdentifier) .nil))))))))))
def T_ChargingSessionIdentifier : Ty := (.wrap .octets)
def T_SMdeliveryReportRequested : Ty := (.wrap .enum)
def T_MessageClass : Ty := (.wrap .enum)
def T_MessageReference : Ty := (.wrap .octets)
def T_PriorityType : Ty := (.wrap .enum)
def T_UnauthorizedLCSClientDiagnostic : Ty := (.wrap .enum)
def T_PositionMethodFailureDiagnostic : Ty := (.wrap .enum)
def T_ManagementExtensionInformation : Ty := (.choice .nil)
def T_ManagementExtension : Ty := (.struct (.cons ⟨false, none, false, false, false, 0⟩ .oid (.cons ⟨true, some 1, false, false, false, 0⟩ (.ptr .bool) (.cons ⟨false, some 2, false, false, false, 0⟩ T_ManagementExtensionInformation .nil))))
def T_Diagnostics : Ty := (.choice (.cons ⟨false, some 0, false, false, false, 0⟩ (.ptr (.int 64)) (.cons ⟨false, some 1, false, false, false, 0⟩ (.ptr (.int 64)) (.cons ⟨false, some 2, false, false, false, 0⟩ (.ptr (.int 64)) (.cons ⟨false, some 3, false, false, false, 0⟩ (.ptr T_ManagementExtension) (.cons ⟨false, some 4, false, false, false, 0⟩ (.ptr T_ManagementExtension) (.cons ⟨false, some 5, false, false, false, 0⟩ (.ptr T_PositionMethodFailureDiagnostic) (.cons ⟨false, some 6, false, false, false, 0⟩ (.ptr T_UnauthorizedLCSClientDiagnostic) (.cons ⟨false, some 7, false, false, false, 0⟩ (.ptr (.int 64)) .nil)))))))))
def T_SMSResult : Ty := (.wrap T_Diagnostics)
def T_SMServiceType : Ty := (.wrap (.int 64))
def T_SMSStatus : Ty := (.wrap .octets)
def T_SMReplyPathRequested : Ty := (.wrap .enum)
def T_SMMessageType : Ty := (.wrap .enum)
def T_SMAddressDomain : Ty := (.struct (.cons ⟨true, some 0, false, false, false, 0⟩ (.ptr (.str 25)) (.cons ⟨true, some 1, false, false, false, 0⟩ (.ptr T_PLMNId) .nil)))
def T_SMAddressType : Ty := (.wrap .enum)
def T_SMAddressInfo : Ty := (.struct (.cons ⟨true, some 0, false, false, false, 0⟩ (.ptr T_SMAddressType) (.cons ⟨true, some 1, false, false, false, 0⟩ (.ptr (.str 25)) (.cons ⟨true, some 2, false, false, false, 0⟩ (.ptr T_SMAddressDomain) .nil))))
def T_SMInterfaceType : Ty := (.wrap .enum)
def T_SMInterface : Ty := (.struct (.cons ⟨true, some 0, false, false, false, 0⟩ (.ptr (.str 25)) (.cons ⟨true, some 1, false, false, false, 0⟩ (.ptr (.str 25)) (.cons ⟨true, some 2, false, false, false, 0⟩ (.ptr (.str 25)) (.cons ⟨true, some 3, false, false, false, 0⟩ (.ptr T_SMInterfaceType) .nil)))))
def T_ISDNAddressString : Ty := (.wrap T_AddressString)
def T_MSISDN : Ty := (.wrap T_ISDNAddressString)
def T_TBCDSTRING : Ty := (.wrap .octets)
def T_IMSI : Ty := (.wrap T_TBCDSTRING)
def T_RecipientInfo : Ty := (.struct (.cons ⟨true, some 0, false, false, false, 0⟩ (.ptr T_IMSI) (.cons ⟨true, some 1, false, false, false, 0⟩ (.ptr T_MSISDN) (.cons ⟨true, some 2, false, false, false, 0⟩ (.ptr T_SMAddressInfo) (.cons ⟨true, some 3, false, false, false, 0⟩ (.ptr T_AddressString) (.cons ⟨true, some 4, false, false, false, 0⟩ (.ptr T_SMAddressInfo) (.cons ⟨true, some 5, false, false, false, 0⟩ (.ptr T_SMInterface) (.cons ⟨true, some 6, false, false, false, 0⟩ (.ptr .octets) (.cons ⟨true, some 7, false, false, false, 0⟩ (.slice T_SMAddressInfo) .nil)))))))))
def T_OriginatorInfo : Ty := (.struct (.cons ⟨true, some 0, false, false, false, 0⟩ (.ptr T_IMSI) (.cons ⟨true, some 1, false, false, false, 0⟩ (.ptr T_MSISDN) (.cons ⟨true, some 2, false, false, false, 0⟩ (.ptr T_SMAddressInfo) (.cons ⟨true, some 3, false, false, false, 0⟩ (.ptr T_AddressString) (.cons ⟨true, some 4, false, false, false, 0⟩ (.ptr T_SMAddressInfo) (.cons ⟨true, some 5, false, false, false, 0⟩ (.ptr T_SMInterface) (.cons ⟨true, some 6, false, false, false, 0⟩ (.ptr .octets) (.cons ⟨true, some 7, false, false, false, 0⟩ (.slice T_SMAddressInfo) .nil)))))))))
def T_SMSChargingInformation : Ty := (.struct (.cons ⟨true, some 1, false, false, false, 0⟩ (.ptr T_OriginatorInfo) (.cons ⟨true, some 2, false, false, false, 0⟩ (.slice T_RecipientInfo) (.cons ⟨true, some 3, false, false, false, 0⟩ (.ptr T_SubscriberEquipmentNumber) (.cons ⟨true, some 4, false, false, false, 0⟩ (.ptr T_UserLocationInformation) (.cons ⟨true, some 5, false, false, false, 0⟩ (.ptr T_MSTimeZone) (.cons ⟨true, some 6, false, false, false, 0⟩ (.ptr T_RATType) (.cons ⟨true, some 7, false, false, false, 0⟩ (.ptr T_AddressString) (.cons ⟨false, some 8, false, false, false, 0⟩ T_TimeStamp (.cons ⟨true, some 20, false, false, false, 0⟩ (.ptr (.int 64)) (.cons ⟨true, some 21, false, false, false, 0⟩ (.ptr T_SMMessageType) (.cons ⟨true, some 22, false, false, false, 0⟩ (.ptr T_SMReplyPathRequested) (.cons ⟨true, some 23, false, false, false, 0⟩ (.ptr .octets) (.cons ⟨true, some 24, false, false, false, 0⟩ (.ptr T_SMSStatus) (.cons ⟨true, some 25, false, false, false, 0⟩ (.ptr T_TimeStamp) (.cons ⟨true, some 26, false, false, false, 0⟩ (.ptr (.int 64)) (.cons ⟨true, some 27, false, false, false, 0⟩ (.ptr T_SMServiceType) (.cons ⟨true, some 28, false, false, false, 0⟩ (.ptr (.int 64)) (.cons ⟨true, some 29, false, false, false, 0⟩ (.ptr T_SMSResult) (.cons ⟨true, some 30, false, false, false, 0⟩ (.ptr T_TimeStamp) (.cons ⟨true, some 31, false, false, false, 0⟩ (.ptr T_PriorityType) (.cons ⟨true, some 32, false, false, false, 0⟩ (.ptr T_MessageReference) (.cons ⟨true, some 33, false, false, false, 0⟩ (.ptr (.int 64)) (.cons ⟨true, some 34, false, false, false, 0⟩ (.ptr T_MessageClass) (.cons ⟨true, some 35, false, false, false, 0⟩ (.ptr T_SMdeliveryReportRequested) (.cons ⟨true, some 36, false, false, false, 0⟩ (.ptr (.str 12)) (.cons ⟨true, some 37, false, false, false, 0⟩ (.ptr T_RoamerInOut) (.cons ⟨true, some 38, false, false, false, 0⟩ (.ptr T_UserLocationInformationStructured) .nil))))))))))))))))))))))))))))
def T_PartialRecordMethod : Ty := (.wrap .enum)
def T_DataVolumeOctets : Ty := (.wrap (.int 64))
def T_CallDuration : Ty := (.wrap (.int 64))
def T_TriggerCategory : Ty := (.wrap .enum)
def T_SMFTrigger : Ty := (.wrap (.int 64))
def T_RoamingTrigger : Ty := (.struct (.cons ⟨true, some 0, false, false, false, 0⟩ (.ptr T_SMFTrigger) (.cons ⟨true, some 1, false, false, false, 0⟩ (.ptr T_TriggerCategory) (.cons ⟨true, some 2, false, false, false, 0⟩ (.ptr T_CallDuration) (.cons ⟨true, some 3, false, false, false, 0⟩ (.ptr T_DataVolumeOctets) (.cons ⟨true, some 4, false, false, false, 0⟩ (.ptr (.int 64)) .nil))))))
def T_RoamingChargingProfile : Ty := (.struct (.cons ⟨true, some 0, false, false, false, 0⟩ (.slice T_RoamingTrigger) (.cons ⟨true, some 1, false, false, false, 0⟩ (.ptr T_PartialRecordMethod) .nil)))
def T_QoSCharacteristics : Ty := (.wrap .octets)
def T_RANNASCause : Ty := (.wrap .octets)
def T_EnhancedDiagnostics : Ty := (.struct (.cons ⟨false, some 0, false, false, false, 0⟩ (.slice T_RANNASCause) .nil))
def T_ThreeGPPPSDataOffStatus : Ty := (.wrap .enum)
def T_ServingNetworkFunctionID : Ty := (.struct (.cons ⟨false, some 0, false, false, false, 0⟩ T_NetworkFunctionInformation (.cons ⟨true, some 1, false, false, false, 0⟩ (.ptr T_AMFID) .nil)))
def T_FiveGQoSInformation : Ty := (.struct (.cons ⟨true, some 1, false, false, false, 0⟩ (.ptr (.int 64)) (.cons ⟨true, some 2, false, false, false, 0⟩ (.ptr T_AllocationRetentionPriority) (.cons ⟨true, some 3, false, false, false, 0⟩ (.ptr .bool) (.cons ⟨true, some 4, false, false, false, 0⟩ (.ptr .bool) (.cons ⟨true, some 5, false, false, false, 0⟩ (.ptr T_Bitrate) (.cons ⟨true, some 6, false, false, false, 0⟩ (.ptr T_Bitrate) (.cons ⟨true, some 7, false, false, false, 0⟩ (.ptr T_Bitrate) (.cons ⟨true, some 8, false, false, false, 0⟩ (.ptr T_Bitrate) (.cons ⟨true, some 9, false, false, false, 0⟩ (.ptr (.int 64)) (.cons ⟨true, some 10, false, false, false, 0⟩ (.ptr (.int 64)) (.cons ⟨true, some 11, false, false, false, 0⟩ (.ptr (.int 64)) (.cons ⟨true, some 12, false, false, false, 0⟩ (.ptr (.int 64)) (.cons ⟨true, some 13, false, false, false, 0⟩ (.ptr (.int 64)) .nil))))))))))))))
def T_LocalSequenceNumber : Ty := (.wrap (.int 64))
def T_Trigger : Ty := (.choice (.cons ⟨false, some 0, false, false, false, 0⟩ (.ptr T_SMFTrigger) .nil))
def T_QoSFlowId : Ty := (.wrap (.int 64))
def T_MultipleQFIContainer : Ty := (.struct (.cons ⟨true, some 0, false, false, false, 0⟩ (.ptr T_QoSFlowId) (.cons ⟨true, some 1, false, false, false, 0⟩ (.slice T_Trigger) (.cons ⟨true, some 2, false, false, false, 0⟩ (.ptr T_TimeStamp) (.cons ⟨true, some 3, false, false, false, 0⟩ (.ptr T_DataVolumeOctets) (.cons ⟨true, some 4, false, false, false, 0⟩ (.ptr T_DataVolumeOctets) (.cons ⟨true, some 5, false, false, false, 0⟩ (.ptr T_DataVolumeOctets) (.cons ⟨true, some 6, false, false, false, 0⟩ (.ptr T_LocalSequenceNumber) (.cons ⟨true, some 8, false, false, false, 0⟩ (.ptr T_TimeStamp) (.cons ⟨true, some 9, false, false, false, 0⟩ (.ptr T_TimeStamp) (.cons ⟨true, some 10, false, false, false, 0⟩ (.ptr T_FiveGQoSInformation) (.cons ⟨true, some 11, false, false, false, 0⟩ (.ptr T_UserLocationInformation) (.cons ⟨true, some 12, false, false, false, 0⟩ (.ptr T_MSTimeZone) (.cons ⟨true, some 13, false, false, false, 0⟩ (.ptr T_PresenceReportingAreaInfo) (.cons ⟨true, some 14, false, false, false, 0⟩ (.ptr T_RATType) (.cons ⟨false, some 15, false, false, false, 0⟩ T_TimeStamp (.cons ⟨true, some 16, false, false, false, 0⟩ (.slice T_ServingNetworkFunctionID) (.cons ⟨true, some 17, false, false, false, 0⟩ (.ptr T_ThreeGPPPSDataOffStatus) (.cons ⟨true, some 18, false, false, false, 0⟩ (.ptr T_ChargingID) (.cons ⟨true, some 19, false, false, false, 0⟩ (.ptr T_Diagnostics) (.cons ⟨true, some 20, false, false, false, 0⟩ (.ptr T_EnhancedDiagnostics) (.cons ⟨true, some 21, false, false, false, 0⟩ (.ptr T_QoSCharacteristics) (.cons ⟨true, some 22, false, false, false, 0⟩ (.ptr T_CallDuration) (.cons ⟨true, some 23, false, false, false, 0⟩ (.ptr T_UserLocationInformationStructured) .nil))))))))))))))))))))))))
def T_RoamingQBCInformation : Ty := (.struct (.cons ⟨true, some 0, false, false, false, 0⟩ (.slice T_MultipleQFIContainer) (.cons ⟨true, some 1, false, false, false, 0⟩ (.ptr T_NetworkFunctionName) (.cons ⟨true, some 2, false, false, false, 0⟩ (.ptr T_RoamingChargingProfile) .nil))))
def T_FiveGSmCause : Ty := (.wrap (.int 64))
def T_FiveGMmCause : Ty := (.wrap (.int 64))
def T_NgApCause : Ty := (.struct (.cons ⟨false, some 0, false, false, false, 0⟩ (.int 64) (.cons ⟨false, some 1, false, false, false, 0⟩ (.int 64) .nil)))
def T_RANNASRelCause : Ty := (.struct (.cons ⟨true, some 0, false, false, false, 0⟩ (.ptr T_NgApCause) (.cons ⟨true, some 1, false, false, false, 0⟩ (.ptr T_FiveGMmCause) (.cons ⟨true, some 2, false, false, false, 0⟩ (.ptr T_FiveGSmCause) (.cons ⟨true, some 3, false, false, false, 0⟩ (.ptr T_RANNASCause) .nil)))))
def T_EnhancedDiagnostics5G : Ty := (.struct (.cons ⟨false, some 0, false, false, false, 0⟩ (.slice T_RANNASRelCause) .nil))
def T_MAPDUSessionIndicator : Ty := (.wrap .enum)
def T_MAPDUSessionInformation : Ty := (.struct (.cons ⟨true, some 0, false, false, false, 0⟩ (.ptr T_MAPDUSessionIndicator) (.cons ⟨true, some 1, false, false, false, 0⟩ (.ptr T_ATSSSCapability) .nil)))
def T_DNNSelectionMode : Ty := (.wrap .enum)
def T_SessionAMBR : Ty := (.struct (.cons ⟨false, some 1, false, false, false, 0⟩ T_Bitrate (.cons ⟨false, some 2, false, false, false, 0⟩ T_Bitrate .nil)))
def T_SubscribedQoSInformation : Ty := (.struct (.cons ⟨true, some 1, false, false, false, 0⟩ (.ptr (.int 64)) (.cons ⟨true, some 2, false, false, false, 0⟩ (.ptr T_AllocationRetentionPriority) (.cons ⟨true, some 3, false, false, false, 0⟩ (.ptr (.int 64)) .nil))))
def T_QosFlowsUsageReport : Ty := (.struct (.cons ⟨true, some 0, false, false, false, 0⟩ (.ptr T_QoSFlowId) (.cons ⟨false, some 1, false, false, false, 0⟩ T_TimeStamp (.cons ⟨false, some 2, false, false, false, 0⟩ T_TimeStamp (.cons ⟨false, some 3, false, false, false, 0⟩ T_DataVolumeOctets (.cons ⟨false, some 4, false, false, false, 0⟩ T_DataVolumeOctets .nil))))))
def T_NGRANSecondaryRATType : Ty := (.wrap .octets)
def T_NGRANSecondaryRATUsageReport : Ty := (.struct (.cons ⟨true, some 0, false, false, false, 0⟩ (.ptr T_NGRANSecondaryRATType) (.cons ⟨true, some 1, false, false, false, 0⟩ (.slice T_QosFlowsUsageReport) .nil)))
def T_ChChSelectionMode : Ty := (.wrap .enum)
def T_ChargingCharacteristics : Ty := (.wrap .octets)
def T_DynamicAddressFlag : Ty := (.wrap .bool)
def T_PDUAddress : Ty := (.struct (.cons ⟨true, some 0, false, false, false, 0⟩ (.ptr T_IPAddress) (.cons ⟨true, some 1, false, false, false, 0⟩ (.ptr T_IPAddress) (.cons ⟨true, some 2, false, false, false, 0⟩ (.ptr T_DynamicAddressFlag) (.cons ⟨true, some 3, false, false, false, 0⟩ (.ptr T_DynamicAddressFlag) (.cons ⟨true, some 4, false, false, false, 0⟩ (.slice T_IPAddress) .nil))))))
def T_DataNetworkNameIdentifier : Ty := (.wrap (.str 22))
def T_SSCMode : Ty := (.wrap (.int 64))
def T_PDUSessionType : Ty := (.wrap .enum)
def T_PDUSessionId : Ty := (.wrap (.int 64))
def T_PDUSessionChargingInformation : Ty := (.struct (.cons ⟨false, some 0, false, false, false, 0⟩ T_ChargingID (.cons ⟨true, some 1, false, false, false, 0⟩ (.ptr T_InvolvedParty) (.cons ⟨true, some 2, false, false, false, 0⟩ (.ptr T_SubscriberEquipmentNumber) (.cons ⟨true, some 3, false, false, false, 0⟩ (.ptr T_UserLocationInformation) (.cons ⟨true, some 4, false, false, false, 0⟩ (.ptr T_RoamerInOut) (.cons ⟨true, some 5, false, false, false, 0⟩ (.ptr T_PresenceReportingAreaInfo) (.cons ⟨false, some 6, false, false, false, 0⟩ T_PDUSessionId (.cons ⟨true, some 7, false, false, false, 0⟩ (.ptr T_SingleNSSAI) (.cons ⟨true, some 8, false, false, false, 0⟩ (.ptr T_PDUSessionType) (.cons ⟨true, some 9, false, false, false, 0⟩ (.ptr T_SSCMode) (.cons ⟨true, some 10, false, false, false, 0⟩ (.ptr T_PLMNId) (.cons ⟨true, some 11, false, false, false, 0⟩ (.slice T_ServingNetworkFunctionID) (.cons ⟨true, some 12, false, false, false, 0⟩ (.ptr T_RATType) (.cons ⟨true, some 13, false, false, false, 0⟩ (.ptr T_DataNetworkNameIdentifier) (.cons ⟨true, some 14, false, false, false, 0⟩ (.ptr T_PDUAddress) (.cons ⟨true, some 15, false, false, false, 0⟩ (.ptr T_AuthorizedQoSInformation) (.cons ⟨true, some 16, false, false, false, 0⟩ (.ptr T_MSTimeZone) (.cons ⟨true, some 17, false, false, false, 0⟩ (.ptr T_TimeStamp) (.cons ⟨true, some 18, false, false, false, 0⟩ (.ptr T_TimeStamp) (.cons ⟨true, some 19, false, false, false, 0⟩ (.ptr T_Diagnostics) (.cons ⟨true, some 20, false, false, false, 0⟩ (.ptr T_ChargingCharacteristics) (.cons ⟨true, some 21, false, false, false, 0⟩ (.ptr T_ChChSelectionMode) (.cons ⟨true, some 22, false, false, false, 0⟩ (.ptr T_ThreeGPPPSDataOffStatus) (.cons ⟨true, some 23, false, false, false, 0⟩ (.slice T_NGRANSecondaryRATUsageReport) (.cons ⟨true, some 24, false, false, false, 0⟩ (.ptr T_SubscribedQoSInformation) (.cons ⟨true, some 25, false, false, false, 0⟩ (.ptr T_SessionAMBR) (.cons ⟨true, some 26, false, false, false, 0⟩ (.ptr T_SessionAMBR) (.cons ⟨true, some 27, false, false, false, 0⟩ (.ptr T_PLMNId) (.cons ⟨true, some 28, false, false, false, 0⟩ (.ptr .null) (.cons ⟨true, some 29, false, false, false, 0⟩ (.ptr T_DNNSelectionMode) (.cons ⟨true, some 30, false, false, false, 0⟩ (.ptr T_ChargingID) (.cons ⟨true, some 31, false, false, false, 0⟩ (.ptr T_UserLocationInformation) (.cons ⟨true, some 32, false, false, false, 0⟩ (.ptr T_RATType) (.cons ⟨true, some 33, false, false, false, 0⟩ (.ptr T_MAPDUSessionInformation) (.cons ⟨true, some 34, false, false, false, 0⟩ (.ptr T_EnhancedDiagnostics5G) (.cons ⟨true, some 35, false, false, false, 0⟩ (.ptr T_UserLocationInformationStructured) (.cons ⟨true, some 36, false, false, false, 0⟩ (.ptr T_UserLocationInformationStructured) .nil))))))))))))))))))))))))))))))))))))))
def T_ManagementExtensions : Ty := (.wrap (.slice T_ManagementExtension))
def T_CauseForRecClosing : Ty := (.wrap (.int 64))
def T_NsiLoadLevelInfo : Ty := (.struct (.cons ⟨true, some 0, false, false, false, 0⟩ (.ptr (.int 64)) (.cons ⟨true, some 1, false, false, false, 0⟩ (.ptr T_SingleNSSAI) (.cons ⟨true, some 2, false, false, false, 0⟩ (.ptr .octets) .nil))))
def T_NetworkAreaInfo : Ty := (.struct (.cons ⟨true, some 0, false, false, false, 0⟩ (.slice T_Ecgi) (.cons ⟨true, some 1, false, false, false, 0⟩ (.slice T_Ncgi) (.cons ⟨true, some 2, false, false, false, 0⟩ (.slice T_GlobalRanNodeId) (.cons ⟨true, some 3, false, false, false, 0⟩ (.slice T_TAI) .nil)))))
def T_SvcExperience : Ty := (.struct (.cons ⟨true, some 0, false, false, false, 0⟩ (.ptr (.int 64)) (.cons ⟨true, some 1, false, false, false, 0⟩ (.ptr (.int 64)) (.cons ⟨true, some 2, false, false, false, 0⟩ (.ptr (.int 64)) .nil))))
def T_ServiceExperienceInfo : Ty := (.struct (.cons ⟨true, some 0, false, false, false, 0⟩ (.ptr T_SvcExperience) (.cons ⟨true, some 1, false, false, false, 0⟩ (.ptr (.int 64)) (.cons ⟨true, some 2, false, false, false, 0⟩ (.ptr T_SingleNSSAI) (.cons ⟨true, some 3, false, false, false, 0⟩ (.ptr .octets) (.cons ⟨true, some 4, false, false, false, 0⟩ (.ptr (.int 64)) (.cons ⟨true, some 5, false, false, false, 0⟩ (.ptr T_DataNetworkNameIdentifier) (.cons ⟨true, some 6, false, false, false, 0⟩ (.ptr T_NetworkAreaInfo) (.cons ⟨true, some 7, false, false, false, 0⟩ (.ptr .octets) (.cons ⟨true, some 8, false, false, false, 0⟩ (.ptr (.int 64)) .nil))))))))))
def T_NSPAContainerInformation : Ty := (.struct (.cons ⟨true, some 0, false, false, false, 0⟩ (.ptr (.int 64)) (.cons ⟨true, some 1, false, false, false, 0⟩ (.ptr T_Throughput) (.cons ⟨true, some 3, false, false, false, 0⟩ (.ptr (.str 12)) (.cons ⟨true, some 4, false, false, false, 0⟩ (.ptr T_ServiceExperienceInfo) (.cons ⟨true, some 5, false, false, false, 0⟩ (.ptr (.int 64)) (.cons ⟨true, some 6, false, false, false, 0⟩ (.ptr (.int 64)) (.cons ⟨true, some 7, false, false, false, 0⟩ (.ptr T_NsiLoadLevelInfo) .nil))))))))
def T_QuotaManagementIndicator : Ty := (.wrap .enum)
def T_SteerModeValue : Ty := (.wrap .enum)
def T_MAPDUSteeringMode : Ty := (.struct (.cons ⟨true, some 0, false, false, false, 0⟩ (.ptr T_SteerModeValue) (.cons ⟨true, some 1, false, false, false, 0⟩ (.ptr T_AccessType) (.cons ⟨true, some 2, false, false, false, 0⟩ (.ptr T_AccessType) (.cons ⟨true, some 3, false, false, false, 0⟩ (.ptr (.int 64)) (.cons ⟨true, some 4, false, false, false, 0⟩ (.ptr T_AccessType) .nil))))))
def T_MAPDUSteeringFunctionality : Ty := (.wrap .enum)
def T_ChargingRuleBaseName : Ty := (.wrap (.str 22))
def T_PDUContainerInformation : Ty := (.struct (.cons ⟨true, some 0, false, false, false, 0⟩ (.ptr T_ChargingRuleBaseName) (.cons ⟨true, some 2, false, false, false, 0⟩ (.ptr T_TimeStamp) (.cons ⟨true, some 3, false, false, false, 0⟩ (.ptr T_TimeStamp) (.cons ⟨true, some 4, false, false, false, 0⟩ (.ptr T_FiveGQoSInformation) (.cons ⟨true, some 5, false, false, false, 0⟩ (.ptr T_UserLocationInformation) (.cons ⟨true, some 6, false, false, false, 0⟩ (.ptr T_PresenceReportingAreaInfo) (.cons ⟨true, some 7, false, false, false, 0⟩ (.ptr T_RATType) (.cons ⟨true, some 8, false, false, false, 0⟩ (.ptr .octets) (.cons ⟨true, some 9, false, false, false, 0⟩ (.ptr .octets) (.cons ⟨true, some 10, false, false, false, 0⟩ (.slice T_ServingNetworkFunctionID) (.cons ⟨true, some 11, false, false, false, 0⟩ (.ptr T_MSTimeZone) (.cons ⟨true, some 12, false, false, false, 0⟩ (.ptr T_ThreeGPPPSDataOffStatus) (.cons ⟨true, some 13, false, false, false, 0⟩ (.ptr T_QoSCharacteristics) (.cons ⟨true, some 14, false, false, false, 0⟩ (.ptr T_ChargingID) (.cons ⟨true, some 15, false, false, false, 0⟩ (.ptr T_AFChargingID) (.cons ⟨true, some 16, false, false, false, 0⟩ (.ptr T_MAPDUSteeringFunctionality) (.cons ⟨true, some 17, false, false, false, 0⟩ (.ptr T_MAPDUSteeringMode) (.cons ⟨true, some 18, false, false, false, 0⟩ (.ptr T_UserLocationInformationStructured) (.cons ⟨true, some 19, false, false, false, 0⟩ (.slice T_PresenceReportingAreaInfo) .nil))))))))))))))))))))
def T_RatingIndicator : Ty := (.wrap .bool)
def T_ServiceIdentifier : Ty := (.wrap (.int 64))
def T_UsedUnitContainer : Ty := (.struct (.cons ⟨true, some 0, false, false, false, 0⟩ (.ptr T_ServiceIdentifier) (.cons ⟨true, some 1, false, false, false, 0⟩ (.ptr T_CallDuration) (.cons ⟨true, some 2, false, false, false, 0⟩ (.slice T_Trigger) (.cons ⟨true, some 3, false, false, false, 0⟩ (.ptr T_TimeStamp) (.cons ⟨true, some 4, false, false, false, 0⟩ (.ptr T_DataVolumeOctets) (.cons ⟨true, some 5, false, false, false, 0⟩ (.ptr T_DataVolumeOctets) (.cons ⟨true, some 6, false, false, false, 0⟩ (.ptr T_DataVolumeOctets) (.cons ⟨true, some 7, false, false, false, 0⟩ (.ptr (.int 64)) (.cons ⟨true, some 8, false, false, false, 0⟩ (.ptr T_TimeStamp) (.cons ⟨true, some 9, false, false, false, 0⟩ (.ptr T_LocalSequenceNumber) (.cons ⟨true, some 10, false, false, false, 0⟩ (.ptr T_RatingIndicator) (.cons ⟨true, some 11, false, false, false, 0⟩ (.ptr T_PDUContainerInformation) (.cons ⟨true, some 12, false, false, false, 0⟩ (.ptr .bool) (.cons ⟨true, some 13, false, false, false, 0⟩ (.ptr T_QuotaManagementIndicator) (.cons ⟨true, some 14, false, false, false, 0⟩ (.ptr T_NSPAContainerInformation) (.cons ⟨true, some 15, false, false, false, 0⟩ (.slice T_TimeStamp) .nil)))))))))))))))))
def T_RatingGroupId : Ty := (.wrap (.int 64))
def T_MultipleUnitUsage : Ty := (.struct (.cons ⟨false, some 0, false, false, false, 0⟩ T_RatingGroupId (.cons ⟨true, some 1, false, false, false, 0⟩ (.slice T_UsedUnitContainer) (.cons ⟨true, some 2, false, false, false, 0⟩ (.ptr T_NetworkFunctionName) (.cons ⟨true, some 3, false, false, false, 0⟩ (.ptr T_PDUAddress) .nil)))))
def T_SubscriptionIDType : Ty := (.wrap .enum)
def T_SubscriptionID : Ty := (.struct (.cons ⟨false, some 0, false, false, false, 0⟩ T_SubscriptionIDType (.cons ⟨false, some 1, false, false, false, 0⟩ (.str 12) .nil)))
def T_RecordType : Ty := (.wrap (.int 64))
def T_ChargingRecord : Ty := (.struct (.cons ⟨false, some 0, false, false, false, 0⟩ T_RecordType (.cons ⟨false, some 1, false, false, false, 0⟩ T_NetworkFunctionName (.cons ⟨true, some 2, false, false, false, 0⟩ (.ptr T_SubscriptionID) (.cons ⟨false, some 3, false, false, false, 0⟩ T_NetworkFunctionInformation (.cons ⟨true, some 4, false, false, false, 0⟩ (.slice T_Trigger) (.cons ⟨true, some 5, false, false, false, 0⟩ (.slice T_MultipleUnitUsage) (.cons ⟨false, some 6, false, false, false, 0⟩ T_TimeStamp (.cons ⟨false, some 7, false, false, false, 0⟩ T_CallDuration (.cons ⟨true, some 8, false, false, false, 0⟩ (.ptr (.int 64)) (.cons ⟨false, some 9, false, false, false, 0⟩ T_CauseForRecClosing (.cons ⟨true, some 10, false, false, false, 0⟩ (.ptr T_Diagnostics) (.cons ⟨true, some 11, false, false, false, 0⟩ (.ptr T_LocalSequenceNumber) (.cons ⟨true, some 12, false, false, false, 0⟩ (.ptr T_ManagementExtensions) (.cons ⟨true, some 13, false, false, false, 0⟩ (.ptr T_PDUSessionChargingInformation) (.cons ⟨true, some 14, false, false, false, 0⟩ (.ptr T_RoamingQBCInformation) (.cons ⟨true, some 15, false, false, false, 0⟩ (.ptr T_SMSChargingInformation) (.cons ⟨true, some 16, false, false, false, 0⟩ (.ptr T_ChargingSessionIdentifier) (.cons ⟨true, some 17, false, false, false, 0⟩ (.ptr .octets) (.cons ⟨true, some 18, false, false, false, 0⟩ (.ptr T_ExposureFunctionAPIInformation) (.cons ⟨true, some 19, false, false, false, 0⟩ (.ptr T_RegistrationChargingInformation) (.cons ⟨true, some 20, false, false, false, 0⟩ (.ptr T_N2ConnectionChargingInformation) (.cons ⟨true, some 21, false, false, false, 0⟩ (.ptr T_LocationReportingChargingInformation) (.cons ⟨true, some 22, false, false, false, 0⟩ (.ptr T_IncompleteCDRIndication) (.cons ⟨true, some 23, false, false, false, 0⟩ (.ptr T_TenantIdentifier) (.cons ⟨true, some 24, false, false, false, 0⟩ (.ptr T_MnSConsumerIdentifier) (.cons ⟨true, some 25, false, false, false, 0⟩ (.ptr T_NSMChargingInformation) (.cons ⟨true, some 26, false, false, false, 0⟩ (.ptr T_NSPAChargingInformation) (.cons ⟨true, some 27, false, false, false, 0⟩ (.ptr T_ChargingID) .nil)))))))))))))))))))))))))))))
def T_CHFRecord : Ty := (.choice (.cons ⟨false, some 200, false, false, false, 0⟩ (.ptr T_ChargingRecord) .nil))
def T_EventBasedChargingInformation : Ty := (.struct (.cons ⟨false, some 1, false, false, false, 0⟩ (.int 64) (.cons ⟨true, some 2, false, false, false, 0⟩ (.slice T_TimeStamp) .nil)))
def T_IPBinV6AddressWithOrWithoutPrefixLength : Ty := (.choice (.cons ⟨false, some 1, false, false, false, 0⟩ (.ptr T_IPBinV6Address) (.cons ⟨false, some 4, false, false, false, 0⟩ (.ptr T_IPBinV6AddressWithPrefixLength) .nil)))
def T_IPBinaryAddress : Ty := (.choice (.cons ⟨false, some 0, false, false, false, 0⟩ (.ptr T_IPBinV4Address) (.cons ⟨false, none, false, false, false, 0⟩ (.ptr T_IPBinV6AddressWithOrWithoutPrefixLength) .nil)))
def T_IPTextRepresentedAddress : Ty := (.choice (.cons ⟨false, some 2, false, false, false, 0⟩ (.ptr (.str 22)) (.cons ⟨false, some 3, false, false, false, 0⟩ (.ptr (.str 22)) .nil)))
def T_ServiceSpecificInfo : Ty := (.struct (.cons ⟨true, some 0, false, false, false, 0⟩ (.ptr (.str 25)) (.cons ⟨true, some 1, false, false, false, 0⟩ (.ptr (.int 64)) .nil)))

/-- every type declared in cdr/cdrType, as reflect and the codec's naming conventions see it -/
def schema : List (String × Ty) := [
  ("AFChargingID", T_AFChargingID),
  ("AMFID", T_AMFID),
  ("APIDirection", T_APIDirection),
  ("APIResultCode", T_APIResultCode),
  ("ATSSSCapability", T_ATSSSCapability),
  ("AccessType", T_AccessType),
  ("AddressString", T_AddressString),
  ("AdministrativeState", T_AdministrativeState),
  ("AgeOfLocationInformation", T_AgeOfLocationInformation),
  ("AllocationRetentionPriority", T_AllocationRetentionPriority),
  ("AmfUeNgapId", T_AmfUeNgapId),
  ("Area", T_Area),
  ("AuthorizedQoSInformation", T_AuthorizedQoSInformation),
  ("Bitrate", T_Bitrate),
  ("CHFRecord", T_CHFRecord),
  ("CallDuration", T_CallDuration),
  ("CauseForRecClosing", T_CauseForRecClosing),
  ("ChChSelectionMode", T_ChChSelectionMode),
  ("ChargingCharacteristics", T_ChargingCharacteristics),
  ("ChargingID", T_ChargingID),
  ("ChargingRecord", T_ChargingRecord),
  ("ChargingRuleBaseName", T_ChargingRuleBaseName),
  ("ChargingSessionIdentifier", T_ChargingSessionIdentifier),
  ("CoreNetworkType", T_CoreNetworkType),
  ("DNNSelectionMode", T_DNNSelectionMode),
  ("DataNetworkNameIdentifier", T_DataNetworkNameIdentifier),
  ("DataVolumeOctets", T_DataVolumeOctets),
  ("DelayToleranceIndicator", T_DelayToleranceIndicator),
  ("Diagnostics", T_Diagnostics),
  ("DynamicAddressFlag", T_DynamicAddressFlag),
  ("ENbId", T_ENbId),
  ("Ecgi", T_Ecgi),
  ("EnhancedDiagnostics", T_EnhancedDiagnostics),
  ("EnhancedDiagnostics5G", T_EnhancedDiagnostics5G),
  ("EutraCellId", T_EutraCellId),
  ("EutraLocation", T_EutraLocation),
  ("EventBasedChargingInformation", T_EventBasedChargingInformation),
  ("ExposureFunctionAPIInformation", T_ExposureFunctionAPIInformation),
  ("ExternalGroupIdentifier", T_ExternalGroupIdentifier),
  ("FiveGMMCapability", T_FiveGMMCapability),
  ("FiveGMmCause", T_FiveGMmCause),
  ("FiveGQoSInformation", T_FiveGQoSInformation),
  ("FiveGSmCause", T_FiveGSmCause),
  ("GCI", T_GCI),
  ("GLI", T_GLI),
  ("GNbId", T_GNbId),
  ("GeodeticInformation", T_GeodeticInformation),
  ("GeographicalInformation", T_GeographicalInformation),
  ("GlobalRanNodeId", T_GlobalRanNodeId),
  ("HFCNodeId", T_HFCNodeId),
  ("IMSI", T_IMSI),
  ("IPAddress", T_IPAddress),
  ("IPBinV4Address", T_IPBinV4Address),
  ("IPBinV6Address", T_IPBinV6Address),
  ("IPBinV6AddressWithOrWithoutPrefixLength", T_IPBinV6AddressWithOrWithoutPrefixLength),
  ("IPBinV6AddressWithPrefixLength", T_IPBinV6AddressWithPrefixLength),
  ("IPBinaryAddress", T_IPBinaryAddress),
  ("IPTextRepresentedAddress", T_IPTextRepresentedAddress),
  ("ISDNAddressString", T_ISDNAddressString),
  ("IncompleteCDRIndication", T_IncompleteCDRIndication),
  ("InvolvedParty", T_InvolvedParty),
  ("LineType", T_LineType),
  ("LocalSequenceNumber", T_LocalSequenceNumber),
  ("LocationReportingChargingInformation", T_LocationReportingChargingInformation),
  ("LocationReportingMessageType", T_LocationReportingMessageType),
  ("MAPDUSessionIndicator", T_MAPDUSessionIndicator),
  ("MAPDUSessionInformation", T_MAPDUSessionInformation),
  ("MAPDUSteeringFunctionality", T_MAPDUSteeringFunctionality),
  ("MAPDUSteeringMode", T_MAPDUSteeringMode),
  ("MICOModeIndication", T_MICOModeIndication),
  ("MSISDN", T_MSISDN),
  ("MSTimeZone", T_MSTimeZone),
  ("ManagementExtension", T_ManagementExtension),
  ("ManagementExtensionInformation", T_ManagementExtensionInformation),
  ("ManagementExtensions", T_ManagementExtensions),
  ("ManagementOperation", T_ManagementOperation),
  ("ManagementOperationStatus", T_ManagementOperationStatus),
  ("MessageClass", T_MessageClass),
  ("MessageReference", T_MessageReference),
  ("MnSConsumerIdentifier", T_MnSConsumerIdentifier),
  ("MobilityLevel", T_MobilityLevel),
  ("MultipleQFIContainer", T_MultipleQFIContainer),
  ("MultipleUnitUsage", T_MultipleUnitUsage),
  ("N2ConnectionChargingInformation", T_N2ConnectionChargingInformation),
  ("N2ConnectionMessageType", T_N2ConnectionMessageType),
  ("N3IwFId", T_N3IwFId),
  ("N3gaLocation", T_N3gaLocation),
  ("NGRANSecondaryRATType", T_NGRANSecondaryRATType),
  ("NGRANSecondaryRATUsageReport", T_NGRANSecondaryRATUsageReport),
  ("NSMChargingInformation", T_NSMChargingInformation),
  ("NSPAChargingInformation", T_NSPAChargingInformation),
  ("NSPAContainerInformation", T_NSPAContainerInformation),
  ("NSSAIMap", T_NSSAIMap),
  ("Ncgi", T_Ncgi),
  ("NetworkAreaInfo", T_NetworkAreaInfo),
  ("NetworkFunctionInformation", T_NetworkFunctionInformation),
  ("NetworkFunctionName", T_NetworkFunctionName),
  ("NetworkFunctionality", T_NetworkFunctionality),
  ("NgApCause", T_NgApCause),
  ("NgeNbId", T_NgeNbId),
  ("Nid", T_Nid),
  ("NodeAddress", T_NodeAddress),
  ("NrCellId", T_NrCellId),
  ("NrLocation", T_NrLocation),
  ("NsiLoadLevelInfo", T_NsiLoadLevelInfo),
  ("OperationalState", T_OperationalState),
  ("OriginatorInfo", T_OriginatorInfo),
  ("PDPAddressPrefixLength", T_PDPAddressPrefixLength),
  ("PDUAddress", T_PDUAddress),
  ("PDUContainerInformation", T_PDUContainerInformation),
  ("PDUSessionChargingInformation", T_PDUSessionChargingInformation),
  ("PDUSessionId", T_PDUSessionId),
  ("PDUSessionType", T_PDUSessionType),
  ("PLMNId", T_PLMNId),
  ("PSCellInformation", T_PSCellInformation),
  ("PartialRecordMethod", T_PartialRecordMethod),
  ("PositionMethodFailureDiagnostic", T_PositionMethodFailureDiagnostic),
  ("PreemptionCapability", T_PreemptionCapability),
  ("PreemptionVulnerability", T_PreemptionVulnerability),
  ("PresenceReportingAreaElementsList", T_PresenceReportingAreaElementsList),
  ("PresenceReportingAreaInfo", T_PresenceReportingAreaInfo),
  ("PresenceReportingAreaNode", T_PresenceReportingAreaNode),
  ("PresenceReportingAreaStatus", T_PresenceReportingAreaStatus),
  ("PriorityType", T_PriorityType),
  ("QoSCharacteristics", T_QoSCharacteristics),
  ("QoSFlowId", T_QoSFlowId),
  ("QosFlowsUsageReport", T_QosFlowsUsageReport),
  ("QuotaManagementIndicator", T_QuotaManagementIndicator),
  ("RANNASCause", T_RANNASCause),
  ("RANNASRelCause", T_RANNASRelCause),
  ("RATType", T_RATType),
  ("RanUeNgapId", T_RanUeNgapId),
  ("RatingGroupId", T_RatingGroupId),
  ("RatingIndicator", T_RatingIndicator),
  ("RecipientInfo", T_RecipientInfo),
  ("RecordType", T_RecordType),
  ("RegistrationChargingInformation", T_RegistrationChargingInformation),
  ("RegistrationMessageType", T_RegistrationMessageType),
  ("RestrictionType", T_RestrictionType),
  ("RoamerInOut", T_RoamerInOut),
  ("RoamingChargingProfile", T_RoamingChargingProfile),
  ("RoamingQBCInformation", T_RoamingQBCInformation),
  ("RoamingTrigger", T_RoamingTrigger),
  ("RrcEstablishmentCause", T_RrcEstablishmentCause),
  ("SMAddressDomain", T_SMAddressDomain),
  ("SMAddressInfo", T_SMAddressInfo),
  ("SMAddressType", T_SMAddressType),
  ("SMFTrigger", T_SMFTrigger),
  ("SMInterface", T_SMInterface),
  ("SMInterfaceType", T_SMInterfaceType),
  ("SMMessageType", T_SMMessageType),
  ("SMReplyPathRequested", T_SMReplyPathRequested),
  ("SMSChargingInformation", T_SMSChargingInformation),
  ("SMSResult", T_SMSResult),
  ("SMSStatus", T_SMSStatus),
  ("SMServiceType", T_SMServiceType),
  ("SMdeliveryReportRequested", T_SMdeliveryReportRequested),
  ("SSCMode", T_SSCMode),
  ("ServiceAreaRestriction", T_ServiceAreaRestriction),
  ("ServiceExperienceInfo", T_ServiceExperienceInfo),
  ("ServiceIdentifier", T_ServiceIdentifier),
  ("ServiceProfileChargingInformation", T_ServiceProfileChargingInformation),
  ("ServiceSpecificInfo", T_ServiceSpecificInfo),
  ("ServingNetworkFunctionID", T_ServingNetworkFunctionID),
  ("SessionAMBR", T_SessionAMBR),
  ("SharingLevel", T_SharingLevel),
  ("SingleNSSAI", T_SingleNSSAI),
  ("SliceDifferentiator", T_SliceDifferentiator),
  ("SliceServiceType", T_SliceServiceType),
  ("SmsIndication", T_SmsIndication),
  ("SteerModeValue", T_SteerModeValue),
  ("SubscribedQoSInformation", T_SubscribedQoSInformation),
  ("SubscriberEquipmentNumber", T_SubscriberEquipmentNumber),
  ("SubscriberEquipmentType", T_SubscriberEquipmentType),
  ("SubscriptionID", T_SubscriptionID),
  ("SubscriptionIDType", T_SubscriptionIDType),
  ("SvcExperience", T_SvcExperience),
  ("TAC", T_TAC),
  ("TAI", T_TAI),
  ("TBCDSTRING", T_TBCDSTRING),
  ("TNAPId", T_TNAPId),
  ("TWAPId", T_TWAPId),
  ("TenantIdentifier", T_TenantIdentifier),
  ("ThreeGPPPSDataOffStatus", T_ThreeGPPPSDataOffStatus),
  ("Throughput", T_Throughput),
  ("TimeStamp", T_TimeStamp),
  ("TngfId", T_TngfId),
  ("Trigger", T_Trigger),
  ("TriggerCategory", T_TriggerCategory),
  ("UnauthorizedLCSClientDiagnostic", T_UnauthorizedLCSClientDiagnostic),
  ("UsedUnitContainer", T_UsedUnitContainer),
  ("UserLocationInformation", T_UserLocationInformation),
  ("UserLocationInformationStructured", T_UserLocationInformationStructured),
  ("V2XCommunicationModeIndicator", T_V2XCommunicationModeIndicator),
  ("WAgfId", T_WAgfId)
]

end Chf.Gen
