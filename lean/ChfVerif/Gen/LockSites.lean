/- GENERATED from the repository's working tree by `verifharness dump-tables locksites` — do not edit. -/
import ChfVerif.Model.LockDiscipline
namespace Chf.Gen
open Chf.LockDiscipline

/-- every `Lock()` statement of the request path: where, kind, calls before the unlock is guaranteed,
    unguarded Unlocks elsewhere, further Locks of the same mutex in the function, calls that wait for the consumer
    while the mutex is held -/
def lockSites : List LockSite := [
  ⟨"cdr.go:OpenCDR:self", 2, 0, 0, 0, 0⟩,
  ⟨"converged_charging.go:ChargingDataCreate:ue.CULock", 1, 0, 0, 0, 0⟩,
  ⟨"converged_charging.go:ChargingDataRelease:ue.CULock", 0, 0, 0, 0, 0⟩,
  ⟨"converged_charging.go:ChargingDataUpdate:ue.CULock", 0, 0, 0, 0, 0⟩,
  ⟨"converged_charging.go:NotifyRecharge:ue.CULock", 2, 0, 0, 0, 0⟩
]

/-- functions of the request path: id, where, locks the subscriber's mutex itself, accesses to the subscriber's shared state
    while it holds the mutex / while it does not, named exception, entered from the router -/
def fnFacts : List FnFact := [
  ⟨0, "api_convergedcharging.go:getConvergenChargingRoutes", false, 0, 0, "", false⟩,
  ⟨1, "api_convergedcharging.go:ChargingdataChargingDataRefReleasePost", false, 0, 0, "", true⟩,
  ⟨2, "api_convergedcharging.go:ChargingdataChargingDataRefUpdatePost", false, 0, 0, "", true⟩,
  ⟨3, "api_convergedcharging.go:ChargingdataPost", false, 0, 0, "", true⟩,
  ⟨4, "api_convergedcharging.go:RechargeGet", false, 0, 0, "", true⟩,
  ⟨5, "api_convergedcharging.go:RechargePut", false, 0, 0, "", true⟩,
  ⟨6, "api_offlineonlycharging.go:getOfflineOnlyChargingRoutes", false, 0, 0, "", false⟩,
  ⟨7, "api_offlineonlycharging.go:OfflinechargingdataOfflineChargingDataRefReleasePost", false, 0, 0, "", true⟩,
  ⟨8, "api_offlineonlycharging.go:OfflinechargingdataOfflineChargingDataRefUpdatePost", false, 0, 0, "", true⟩,
  ⟨9, "api_offlineonlycharging.go:OfflinechargingdataPost", false, 0, 0, "", true⟩,
  ⟨10, "api_spendinglimitcontrol.go:getSpendingLimitControlRoutes", false, 0, 0, "", false⟩,
  ⟨11, "api_spendinglimitcontrol.go:SubscriptionsPost", false, 0, 0, "", true⟩,
  ⟨12, "api_spendinglimitcontrol.go:SubscriptionsSubscriptionIdDelete", false, 0, 0, "", true⟩,
  ⟨13, "api_spendinglimitcontrol.go:SubscriptionsSubscriptionIdPut", false, 0, 0, "", true⟩,
  ⟨14, "routes.go:applyRoutes", false, 0, 0, "", false⟩,
  ⟨15, "server.go:NewServer", false, 0, 0, "", false⟩,
  ⟨16, "server.go:newRouter", false, 0, 0, "", false⟩,
  ⟨17, "server.go:Run", false, 0, 0, "", false⟩,
  ⟨18, "server.go:Stop", false, 0, 0, "", false⟩,
  ⟨19, "server.go:startServer", false, 0, 0, "", false⟩,
  ⟨20, "cdr.go:OpenCDR", false, 0, 1, "", false⟩,
  ⟨21, "cdr.go:UpdateCDR", false, 0, 2, "", false⟩,
  ⟨22, "cdr.go:CloseCDR", false, 0, 1, "", false⟩,
  ⟨23, "cdr.go:dumpCdrFile", false, 0, 3, "", false⟩,
  ⟨24, "converged_charging.go:min", false, 0, 0, "", false⟩,
  ⟨25, "converged_charging.go:NotifyRecharge", true, 2, 0, "", false⟩,
  ⟨26, "converged_charging.go:SendChargingNotification", false, 0, 0, "", false⟩,
  ⟨27, "converged_charging.go:HandleChargingdataInitial", false, 0, 0, "", false⟩,
  ⟨28, "converged_charging.go:HandleChargingdataUpdate", false, 0, 0, "", false⟩,
  ⟨29, "converged_charging.go:HandleChargingdataRelease", false, 0, 0, "", false⟩,
  ⟨30, "converged_charging.go:ChargingDataCreate", true, 5, 0, "", false⟩,
  ⟨31, "converged_charging.go:ChargingDataUpdate", true, 6, 0, "", false⟩,
  ⟨32, "converged_charging.go:ChargingDataRelease", true, 2, 0, "", false⟩,
  ⟨33, "converged_charging.go:BuildOnlineChargingDataCreateResopone", false, 0, 1, "", false⟩,
  ⟨34, "converged_charging.go:BuildConvergedChargingDataUpdateResopone", false, 0, 0, "", false⟩,
  ⟨35, "converged_charging.go:getUnitCost", false, 0, 0, "", false⟩,
  ⟨36, "converged_charging.go:sessionChargingReservation", false, 0, 35, "", false⟩,
  ⟨37, "processor.go:NewProcessor", false, 0, 0, "", false⟩,
  ⟨38, "chf_context_init.go:InitChfContext", false, 0, 0, "", false⟩,
  ⟨39, "chf_context_init.go:AddNfServices", false, 0, 0, "", false⟩,
  ⟨40, "context.go:Init", false, 0, 0, "", false⟩,
  ⟨41, "context.go:AuthorizationCheck", false, 0, 0, "", false⟩,
  ⟨42, "context.go:AddChfUeToUePool", false, 0, 0, "", false⟩,
  ⟨43, "context.go:IsControlCharacter", false, 0, 0, "", false⟩,
  ⟨44, "context.go:NewCHFUe", false, 0, 0, "", false⟩,
  ⟨45, "context.go:ChfUeFindBySupi", false, 0, 0, "", false⟩,
  ⟨46, "context.go:GenerateRatingSessionId", false, 0, 0, "", false⟩,
  ⟨47, "context.go:GenerateAccountSessionId", false, 0, 0, "", false⟩,
  ⟨48, "context.go:GetSelf", false, 0, 0, "", false⟩,
  ⟨49, "context.go:GetSelfID", false, 0, 0, "", false⟩,
  ⟨50, "context.go:GetTokenCtx", false, 0, 0, "", false⟩,
  ⟨51, "ue_context.go:FindRatingGroup", false, 0, 1, "", false⟩,
  ⟨52, "ue_context.go:init", false, 0, 21, "constructor: the context is not published yet", false⟩,
  ⟨53, "rating.go:SendServiceUsageRequest", false, 0, 2, "", false⟩,
  ⟨54, "rating.go:HandleSUA", false, 0, 0, "", false⟩,
  ⟨55, "abmf.go:SendAccountDebitRequest", false, 0, 2, "", false⟩,
  ⟨56, "abmf.go:HandleCCA", false, 0, 0, "", false⟩
]

/-- calls between them: caller, callee, made while the caller holds the subscriber's mutex -/
def callFacts : List CallFact := [
  ⟨1, 29, false⟩,
  ⟨2, 28, false⟩,
  ⟨3, 27, false⟩,
  ⟨5, 25, false⟩,
  ⟨15, 16, false⟩,
  ⟨16, 0, false⟩,
  ⟨16, 6, false⟩,
  ⟨16, 10, false⟩,
  ⟨16, 14, false⟩,
  ⟨17, 19, false⟩,
  ⟨20, 48, false⟩,
  ⟨25, 26, false⟩,
  ⟨25, 45, false⟩,
  ⟨25, 48, false⟩,
  ⟨27, 30, false⟩,
  ⟨28, 31, false⟩,
  ⟨29, 32, false⟩,
  ⟨30, 20, true⟩,
  ⟨30, 21, true⟩,
  ⟨30, 22, true⟩,
  ⟨30, 44, false⟩,
  ⟨30, 48, false⟩,
  ⟨31, 20, true⟩,
  ⟨31, 21, true⟩,
  ⟨31, 22, true⟩,
  ⟨31, 23, true⟩,
  ⟨31, 34, true⟩,
  ⟨31, 45, false⟩,
  ⟨31, 48, false⟩,
  ⟨32, 21, true⟩,
  ⟨32, 22, true⟩,
  ⟨32, 23, true⟩,
  ⟨32, 36, true⟩,
  ⟨32, 45, false⟩,
  ⟨32, 48, false⟩,
  ⟨33, 36, false⟩,
  ⟨34, 36, false⟩,
  ⟨35, 53, false⟩,
  ⟨36, 24, false⟩,
  ⟨36, 35, false⟩,
  ⟨36, 45, false⟩,
  ⟨36, 48, false⟩,
  ⟨36, 51, false⟩,
  ⟨36, 53, false⟩,
  ⟨36, 55, false⟩,
  ⟨38, 39, false⟩,
  ⟨40, 38, false⟩,
  ⟨44, 45, false⟩,
  ⟨44, 52, false⟩,
  ⟨50, 50, false⟩,
  ⟨52, 46, false⟩,
  ⟨52, 47, false⟩,
  ⟨53, 54, false⟩,
  ⟨55, 56, false⟩
]

/-- statements that change the global sequence counters: where, which, kind (0 atomic add of 1, 1 `++`, 2 anything else) -/
def counterSites : List CounterSite := [
  ⟨"cdr.go:OpenCDR", "LocalRecordSequenceNumber", 1⟩,
  ⟨"converged_charging.go:ChargingDataCreate", "ChargingSessionSequence", 0⟩
]

end Chf.Gen
