/- GENERATED from the repository's working tree by `verifharness dump-tables locksites` — do not edit. -/
import ChfVerif.Model.LockDiscipline
namespace Chf.Gen
open Chf.LockDiscipline

/-- every `Lock()` statement of the request path: where, kind, calls before the unlock is guaranteed,
    unguarded Unlocks elsewhere, further Locks of the same mutex in the function, calls that wait for the consumer
    while the mutex is held -/
def lockSites : List LockSite := [
  ⟨"cdr.go:OpenCDR:self", 2, 0, 0, 0, 0⟩,
  ⟨"converged_charging.go:ChargingDataCreate:ue.CULock", 1, 0, 0, 0, 0⟩,
  ⟨"converged_charging.go:ChargingDataRelease:ue.CULock", 0, 0, 0, 0, 0⟩,
  ⟨"converged_charging.go:ChargingDataUpdate:ue.CULock", 0, 0, 0, 0, 0⟩,
  ⟨"converged_charging.go:NotifyRecharge:ue.CULock", 2, 0, 0, 0, 0⟩
]

end Chf.Gen
