import ChfVerif.Model.CdrDump
import ChfVerif.Lemmas.TS32297
import ChfVerif.Lemmas.RecordCanon
import ChfVerif.Props.C04
import ChfVerif.Props.C05
/-
  C03 — every CDR file the CHF writes is a well-formed, decodable TS 32.297 file.

  `dumpBytes recs` is what dumpCdrFile + CDRFile.Encoding write for the marshalled records `recs`.
  C03_file: whenever every record fits the 16-bit record length, the independent TS 32.297 reader
  (Spec/TS32297.lean) reads the file back with exactly those payloads, the header-length and file-length
  fields are the real sizes and the count is the number of records — for any number and sizes of records.
  C03_oversize: the hypothesis is necessary; a record longer than 65535 octets is written with a length
  field that is not its size.  That the processor never *hands* such a record to dumpCdrFile (the
  size guard of the update path, the unguarded create/release paths) is not a consequence of this model:
  it is decided per run on the files the real CHF writes (see DESIGN.md, C03 — partial).
-/
namespace Chf.Props.C03
open Chf Chf.CdrFile Chf.CdrDump Chf.TS32297

def total : List Bytes → Nat
  | [] => 0
  | r :: rs => r.length + 4 + total rs

theorem fileLength_eq (recs : List Bytes) (acc : Nat) (h : acc + total recs < 4294967296) :
    fileLength recs acc = acc + total recs := by
  induction recs generalizing acc with
  | nil => simp [fileLength, total]
  | cons r rs ih =>
    simp only [total] at h
    simp only [fileLength, total]
    have e : (acc + (r.length % 4294967296 + 4) % 4294967296) % 4294967296 = acc + r.length + 4 := by omega
    rw [e, ih _ (by omega)]
    omega

theorem cdrsLength_dump (recs : List Bytes) : cdrsLength (recs.map dumpCdr) = total recs := by
  induction recs with
  | nil => rfl
  | cons r rs ih => simp only [List.map, cdrsLength, total, ih, dumpCdr, extCount]; simp; omega

theorem dumpCdr_WF (r : Bytes) (hl : r.length ≤ 65535) (hb : Bytes.ok r) : (dumpCdr r).WF := by
  unfold Cdr.WF CdrHeader.WF dumpCdr
  simp only
  refine ⟨⟨by omega, by decide, by decide, by decide, by decide, by decide, fun _ => trivial⟩, by omega, hb⟩

theorem zeroTs_WF : zeroTs.WF := by unfold TimeStamp.WF zeroTs; decide

theorem dumpFile_WF (recs : List Bytes) (hsz : ∀ r ∈ recs, r.length ≤ 65535 ∧ Bytes.ok r)
    (htot : 52 + total recs < 4294967296) : (dumpFile recs).WF := by
  have hn : recs.length < 4294967296 := by
    have : ∀ l : List Bytes, l.length ≤ total l := by
      intro l; induction l with
      | nil => simp [total]
      | cons a t ih => simp only [List.length_cons, total]; omega
    have := this recs; omega
  refine ⟨?_, ?_, ?_⟩
  · unfold FileHeader.WF dumpFile dumpHeader
    simp only [fileLength_eq recs 52 htot]
    refine ⟨by omega, by decide, by decide, by decide, by decide, by decide, zeroTs_WF, zeroTs_WF, by omega,
      by decide, by decide, by simp, ?_, by decide, by decide, rfl, ?_, by decide, rfl, ?_, by decide, by decide,
      fun _ => trivial, fun _ => trivial⟩
    · intro x hx; simp at hx; omega
    · intro x hx; cases hx
    · intro x hx; cases hx
  · simp [dumpFile, dumpHeader]; omega
  · intro c hc
    simp only [dumpFile, List.mem_map] at hc
    obtain ⟨r, hr, rfl⟩ := hc
    exact dumpCdr_WF r (hsz r hr).1 (hsz r hr).2

/-- C03 (file level): with every record within the 16-bit limit, the written file reads back, under an
    independent TS 32.297 reader, as exactly the records handed in, and its length fields are the real sizes. -/
theorem C03_file (recs : List Bytes) (hsz : ∀ r ∈ recs, r.length ≤ 65535 ∧ Bytes.ok r)
    (htot : 52 + total recs < 4294967296) :
    read (dumpBytes recs) = some (dumpFile recs) ∧
    (dumpFile recs).cdrs.map (·.bytes) = recs ∧
    (∀ c ∈ (dumpFile recs).cdrs, c.hdr.cdrLength = c.bytes.length) ∧
    (dumpFile recs).hdr.numCdrs = recs.length ∧
    (dumpFile recs).hdr.fileLength = (dumpBytes recs).length ∧
    (dumpFile recs).hdr.headerLength = (encodeHeader (dumpFile recs).hdr).length := by
  have hw := dumpFile_WF recs hsz htot
  refine ⟨read_encodeFile _ hw, ?_, ?_, ?_, ?_, ?_⟩
  · simp [dumpFile, dumpCdr, Function.comp_def]
  · intro c hc; exact (hw.2.2 c hc).2.1.symm
  · have := hw.2.1; simp only [dumpFile, List.length_map] at this ⊢; exact this
  · unfold dumpBytes encodeFile
    rw [List.length_append, encodeHeader_length _ (by simp [dumpFile, dumpHeader]), encodeCdrs_length]
    simp only [dumpFile, dumpHeader, cdrsLength_dump, fileLength_eq recs 52 htot, extCount]
    simp
  · rw [encodeHeader_length _ (by simp [dumpFile, dumpHeader])]
    simp [dumpFile, dumpHeader, extCount]

/-- the reader-level statement used as the run-time oracle holds of every such file -/
theorem C03_lengths_consistent (recs : List Bytes) (hsz : ∀ r ∈ recs, r.length ≤ 65535 ∧ Bytes.ok r)
    (htot : 52 + total recs < 4294967296) : lengthsConsistent (dumpBytes recs) = true := by
  have hw := dumpFile_WF recs hsz htot
  obtain ⟨_, _, _, _, hfl, hhl⟩ := C03_file recs hsz htot
  unfold lengthsConsistent
  have hb : dumpBytes recs = encodeHeader (dumpFile recs).hdr ++ encodeCdrs (dumpFile recs).cdrs := rfl
  rw [hb, header_encode hw.1]
  simp only
  have hr := records_encode (dumpFile recs).cdrs hw.2.2 []
  rw [List.append_nil] at hr
  rw [hw.2.1, hr]
  have hlen : (dumpBytes recs).length = (encodeHeader (dumpFile recs).hdr).length + (encodeCdrs (dumpFile recs).cdrs).length := by
    rw [hb, List.length_append]
  rw [← hb]
  simp only [hfl, hhl, hlen, List.length_nil]
  simp

/-- C03 (necessity of the limit): a record of more than 65535 octets gets a length field that is not its size. -/
theorem C03_oversize (r : Bytes) (h : r.length > 65535) : (dumpCdr r).hdr.cdrLength ≠ (dumpCdr r).bytes.length := by
  simp only [dumpCdr]; omega

/-- the guard of the update path starts a new record exactly when the two marshalled sizes exceed 65535 -/
theorem C03_guard (a b : Nat) : startsNewRecord a b = true ↔ a + b > 65535 := by
  simp [startsNewRecord]

/-- non-vacuity: two small records -/
example : (∀ r ∈ [[48, 0], [48, 1, 5]], r.length ≤ 65535 ∧ Bytes.ok r) ∧ 52 + total [[48, 0], [48, 1, 5]] < 4294967296 := by
  refine ⟨?_, by decide⟩
  intro r hr; simp at hr
  rcases hr with rfl | rfl <;> exact ⟨by decide, by intro x hx; simp at hx; omega⟩

/-! ### the payloads: from the charging model's records to the octets (Model/RecordBer.lean)

  `recordVal e r` is the Go value OpenCDR / UpdateCDR / CloseCDR build for the model record `r`
  (`e`: NF id, opening time, consumer functionality), `recordBytes e r` what `asn.BerMarshalWithParams(&record,
  "explicit,choice")` returns for it on the REGENERATED schema type `Gen.T_CHFRecord` — the call of dumpCdrFile
  and of the size guard.  The real code's octets are compared with it on every run (recber / cdrsize streams). -/

open Chf.RecordBer Chf.Ber Chf.Charging

/-- C03 (payload): every record the bookkeeping can hold — any identifiers, any number of usage entries and
    containers — marshals without error or panic to one complete, well-formed BER element (the independent X.690
    walker accepts it) that decodes back to exactly the record's value. -/
theorem C03_payload (e : RecEnv) (r : Record) (h : RecInt64 e r) (hl : (recordEnc e r).length < 4611686018427387904) :
    recordBytes e r = .ok (recordEnc e r) ∧
    X690.wellFormed (recordEnc e r) = true ∧
    unmarshal (.ptr (.ptr Gen.T_CHFRecord)) topParams (recordEnc e r) = .ok (recordVal e r) := by
  have hm := recordBytes_eq e r
  refine ⟨hm, ?_, ?_⟩
  · exact C04.C04_wellformed (.ptr (.ptr Gen.T_CHFRecord)) topParams (recordVal e r) _ (by decide +kernel) (by decide +kernel)
      (by decide) (by decide) (valOK_record e r h) (bitsOK_record e r) (by omega) hm
  · exact C05.C05 (.ptr (.ptr Gen.T_CHFRecord)) topParams (recordVal e r) (by decide +kernel) (by decide)
      (.ptr (.ptr (canon_record e r h))) _ hm hl

/-- C03 (file of records): when every record of the subscriber encodes within the 16-bit record length, the file
    dumpCdrFile writes reads back (independent TS 32.297 reader) with exactly those encodings as payloads, consistent
    length and count fields, and every payload a well-formed BER element — for any number of records. -/
theorem C03_records_file (rs : List (RecEnv × Record))
    (hr : ∀ x ∈ rs, RecInt64 x.1 x.2 ∧ RecOctets x.1 x.2 ∧ (recordEnc x.1 x.2).length ≤ 65535)
    (htot : 52 + total (rs.map fun x => recordEnc x.1 x.2) < 4294967296) :
    let recs := rs.map fun x => recordEnc x.1 x.2
    read (dumpBytes recs) = some (dumpFile recs) ∧
    (dumpFile recs).cdrs.map (·.bytes) = recs ∧
    lengthsConsistent (dumpBytes recs) = true ∧
    ∀ b ∈ recs, X690.wellFormed b = true := by
  intro recs
  have hsz : ∀ b ∈ recs, b.length ≤ 65535 ∧ Bytes.ok b := by
    intro b hb
    obtain ⟨x, hx, rfl⟩ := List.mem_map.mp hb
    exact ⟨(hr x hx).2.2, recordEnc_ok x.1 x.2 (hr x hx).2.1⟩
  obtain ⟨h1, h2, _⟩ := C03_file recs hsz htot
  refine ⟨h1, h2, C03_lengths_consistent recs hsz htot, ?_⟩
  intro b hb
  obtain ⟨x, hx, rfl⟩ := List.mem_map.mp hb
  exact (C03_payload x.1 x.2 (hr x hx).1 (by have := (hr x hx).2.2; omega)).2.1

/-- C03 (the guard of the update path, partial): when `len(record) + len(usage)` — the two sizes ChargingDataUpdate adds
    up — is within 65535, so that the usage is appended to the session's record, the record written is at most
    TWO octets longer than that sum (enclosing length fields widen): at most 65537 octets.  Full statement
    (`≤ 65535`) is false of the code: see `C03_guard_full_false`. -/
theorem C03_guard_partial (e : RecEnv) (r : Record) (us : List Usage) (hne : us ≠ [])
    (hg : berGuard e r us = false) :
    lenOf (recordBytes e (appendUsage r us)) ≤ lenOf (recordBytes e r) + lenOf (chgBytes us) + 2 ∧
    lenOf (recordBytes e (appendUsage r us)) ≤ 65537 := by
  have hne' : (toRecUsage us).isEmpty = false := by
    cases us with
    | nil => exact absurd rfl hne
    | cons a b => simp [toRecUsage]
  have hsum : lenOf (recordBytes e r) + lenOf (chgBytes us) ≤ 65535 := by
    unfold berGuard berGuardR CdrDump.startsNewRecord at hg
    simp only [hne', Bool.false_eq_true, if_false, decide_eq_false_iff_not] at hg
    unfold chgBytes
    omega
  have h := append_size_bound e r us hne hsum
  exact ⟨h, by omega⟩

/-- the known finding `update-guard-ignores-header-growth` as a theorem: a record of 36 octets and usage of 65499
    octets add up to exactly 65535, the guard does not start a new record, and the record written has 65537 octets -/
theorem C03_guard_full_false :
    ¬ (∀ (e : RecEnv) (r : Record) (us : List Usage), berGuard e r us = false →
        lenOf (recordBytes e (appendUsage r us)) ≤ 65535) := by
  intro h
  obtain ⟨L, h1, _, h3⟩ := guard_tight
  have := h e0 r0 [bigUsage L] h1
  omega

/-- non-vacuity: a record with a PDU session, an IPv4 address and one usage entry of two containers meets the
    hypotheses of `C03_payload` -/
example : RecInt64
    ({ nfId := [110, 102], openTime := [38, 9, 48, 4, 68, 5, 43, 0, 0], functionality := 1,
       v4 := some [49, 46, 50], pdu := some ⟨7, 1, 1, [1, 2, 3], [105]⟩ } : RecEnv)
    { sid := some [115], subData := [50], cid := 7, nf := some [97], lsn := 1, rsn := none, cause := 0,
      usage := [{ rg := 1, upf := [117], cs := [⟨1, 5, 2, 3, 0, 1⟩, ⟨2, 70000, 1, 69999, 0, 2⟩] }] } := by
  refine ⟨⟨by decide, by decide⟩, ⟨by decide, by decide⟩, ⟨by decide, by decide⟩, ⟨by decide, by decide⟩, ?_, ?_, ?_⟩
  · intro n h; cases h
  · intro u hu
    simp only [List.mem_singleton] at hu
    subst hu
    refine ⟨⟨by decide, by decide⟩, ?_⟩
    intro c hc
    simp only [List.mem_cons, List.not_mem_nil, or_false] at hc
    rcases hc with rfl | rfl <;>
      exact ⟨⟨by decide, by decide⟩, ⟨by decide, by decide⟩, ⟨by decide, by decide⟩, ⟨by decide, by decide⟩, ⟨by decide, by decide⟩⟩
  · intro d hd
    simp only [Option.some.injEq] at hd
    subst hd
    exact ⟨⟨by decide, by decide⟩, ⟨by decide, by decide⟩, ⟨by decide, by decide⟩⟩

end Chf.Props.C03
