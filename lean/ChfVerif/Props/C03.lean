import ChfVerif.Model.CdrDump
import ChfVerif.Lemmas.TS32297
/-
  C03 — every CDR file the CHF writes is a well-formed, decodable TS 32.297 file.

  `dumpBytes recs` is what dumpCdrFile + CDRFile.Encoding write for the marshalled records `recs`.
  C03_file: whenever every record fits the 16-bit record length, the independent TS 32.297 reader
  (Spec/TS32297.lean) reads the file back with exactly those payloads, the header-length and file-length
  fields are the real sizes and the count is the number of records — for any number and sizes of records.
  C03_oversize: the hypothesis is necessary; a record longer than 65535 octets is written with a length
  field that is not its size.  That the processor never *hands* such a record to dumpCdrFile (the
  size guard of the update path, the unguarded create/release paths) is not a consequence of this model:
  it is decided per run on the files the real CHF writes (see DESIGN.md, C03 — partial).
-/
namespace Chf.Props.C03
open Chf Chf.CdrFile Chf.CdrDump Chf.TS32297

def total : List Bytes → Nat
  | [] => 0
  | r :: rs => r.length + 4 + total rs

theorem fileLength_eq (recs : List Bytes) (acc : Nat) (h : acc + total recs < 4294967296) :
    fileLength recs acc = acc + total recs := by
  induction recs generalizing acc with
  | nil => simp [fileLength, total]
  | cons r rs ih =>
    simp only [total] at h
    simp only [fileLength, total]
    have e : (acc + (r.length % 4294967296 + 4) % 4294967296) % 4294967296 = acc + r.length + 4 := by omega
    rw [e, ih _ (by omega)]
    omega

theorem cdrsLength_dump (recs : List Bytes) : cdrsLength (recs.map dumpCdr) = total recs := by
  induction recs with
  | nil => rfl
  | cons r rs ih => simp only [List.map, cdrsLength, total, ih, dumpCdr, extCount]; simp; omega

theorem dumpCdr_WF (r : Bytes) (hl : r.length ≤ 65535) (hb : Bytes.ok r) : (dumpCdr r).WF := by
  unfold Cdr.WF CdrHeader.WF dumpCdr
  simp only
  refine ⟨⟨by omega, by decide, by decide, by decide, by decide, by decide, fun _ => trivial⟩, by omega, hb⟩

theorem zeroTs_WF : zeroTs.WF := by unfold TimeStamp.WF zeroTs; decide

theorem dumpFile_WF (recs : List Bytes) (hsz : ∀ r ∈ recs, r.length ≤ 65535 ∧ Bytes.ok r)
    (htot : 52 + total recs < 4294967296) : (dumpFile recs).WF := by
  have hn : recs.length < 4294967296 := by
    have : ∀ l : List Bytes, l.length ≤ total l := by
      intro l; induction l with
      | nil => simp [total]
      | cons a t ih => simp only [List.length_cons, total]; omega
    have := this recs; omega
  refine ⟨?_, ?_, ?_⟩
  · unfold FileHeader.WF dumpFile dumpHeader
    simp only [fileLength_eq recs 52 htot]
    refine ⟨by omega, by decide, by decide, by decide, by decide, by decide, zeroTs_WF, zeroTs_WF, by omega,
      by decide, by decide, by simp, ?_, by decide, by decide, rfl, ?_, by decide, rfl, ?_, by decide, by decide,
      fun _ => trivial, fun _ => trivial⟩
    · intro x hx; simp at hx; omega
    · intro x hx; cases hx
    · intro x hx; cases hx
  · simp [dumpFile, dumpHeader]; omega
  · intro c hc
    simp only [dumpFile, List.mem_map] at hc
    obtain ⟨r, hr, rfl⟩ := hc
    exact dumpCdr_WF r (hsz r hr).1 (hsz r hr).2

/-- C03 (file level): with every record within the 16-bit limit, the written file reads back, under an
    independent TS 32.297 reader, as exactly the records handed in, and its length fields are the real sizes. -/
theorem C03_file (recs : List Bytes) (hsz : ∀ r ∈ recs, r.length ≤ 65535 ∧ Bytes.ok r)
    (htot : 52 + total recs < 4294967296) :
    read (dumpBytes recs) = some (dumpFile recs) ∧
    (dumpFile recs).cdrs.map (·.bytes) = recs ∧
    (∀ c ∈ (dumpFile recs).cdrs, c.hdr.cdrLength = c.bytes.length) ∧
    (dumpFile recs).hdr.numCdrs = recs.length ∧
    (dumpFile recs).hdr.fileLength = (dumpBytes recs).length ∧
    (dumpFile recs).hdr.headerLength = (encodeHeader (dumpFile recs).hdr).length := by
  have hw := dumpFile_WF recs hsz htot
  refine ⟨read_encodeFile _ hw, ?_, ?_, ?_, ?_, ?_⟩
  · simp [dumpFile, dumpCdr, Function.comp_def]
  · intro c hc; exact (hw.2.2 c hc).2.1.symm
  · have := hw.2.1; simp only [dumpFile, List.length_map] at this ⊢; exact this
  · unfold dumpBytes encodeFile
    rw [List.length_append, encodeHeader_length _ (by simp [dumpFile, dumpHeader]), encodeCdrs_length]
    simp only [dumpFile, dumpHeader, cdrsLength_dump, fileLength_eq recs 52 htot, extCount]
    simp
  · rw [encodeHeader_length _ (by simp [dumpFile, dumpHeader])]
    simp [dumpFile, dumpHeader, extCount]

/-- the reader-level statement used as the run-time oracle holds of every such file -/
theorem C03_lengths_consistent (recs : List Bytes) (hsz : ∀ r ∈ recs, r.length ≤ 65535 ∧ Bytes.ok r)
    (htot : 52 + total recs < 4294967296) : lengthsConsistent (dumpBytes recs) = true := by
  have hw := dumpFile_WF recs hsz htot
  obtain ⟨_, _, _, _, hfl, hhl⟩ := C03_file recs hsz htot
  unfold lengthsConsistent
  have hb : dumpBytes recs = encodeHeader (dumpFile recs).hdr ++ encodeCdrs (dumpFile recs).cdrs := rfl
  rw [hb, header_encode hw.1]
  simp only
  have hr := records_encode (dumpFile recs).cdrs hw.2.2 []
  rw [List.append_nil] at hr
  rw [hw.2.1, hr]
  have hlen : (dumpBytes recs).length = (encodeHeader (dumpFile recs).hdr).length + (encodeCdrs (dumpFile recs).cdrs).length := by
    rw [hb, List.length_append]
  rw [← hb]
  simp only [hfl, hhl, hlen, List.length_nil]
  simp

/-- C03 (necessity of the limit): a record of more than 65535 octets gets a length field that is not its size. -/
theorem C03_oversize (r : Bytes) (h : r.length > 65535) : (dumpCdr r).hdr.cdrLength ≠ (dumpCdr r).bytes.length := by
  simp only [dumpCdr]; omega

/-- the guard of the update path starts a new record exactly when the two marshalled sizes exceed 65535 -/
theorem C03_guard (a b : Nat) : startsNewRecord a b = true ↔ a + b > 65535 := by
  simp [startsNewRecord]

/-- non-vacuity: two small records -/
example : (∀ r ∈ [[48, 0], [48, 1, 5]], r.length ≤ 65535 ∧ Bytes.ok r) ∧ 52 + total [[48, 0], [48, 1, 5]] < 4294967296 := by
  refine ⟨?_, by decide⟩
  intro r hr; simp at hr
  rcases hr with rfl | rfl <;> exact ⟨by decide, by intro x hx; simp at hx; omega⟩

end Chf.Props.C03
