import ChfVerif.Props.C19
/-
  C18 — Diameter connections and background tasks stay bounded as requests accumulate.

  In the client machine of Model/DiamClient.lean a connection is open from the `start` of its request to the
  `ret` that runs the deferred Close; every open connection carries its reader and watchdog tasks, and a
  handler blocked on a channel is a task as well.  For the configuration of the working tree (`C19.cfg_good`,
  by decide over the regenerated facts) and every scheduler, at most one connection is open per subscriber and
  peer at any time, none once the request has returned, and no handler task is ever left behind — however
  many requests have been processed (the bound does not depend on the length of the history).
-/
namespace Chf.Props.C18
open Chf.DiamClient Chf.Props.C19

/-- background tasks of one machine: reader + watchdog per open connection, plus blocked handlers -/
def tasks (s : St) : Nat := 2 * s.conns.length + s.blocked

theorem C18_bounded (cfg : Cfg) (hg : cfg.good = true) (evs : List Ev) :
    (run cfg {} evs).conns.length ≤ 1 ∧ tasks (run cfg {} evs) ≤ 2 := by
  have h := reachable_inv cfg hg evs
  have hc := h.connsShort
  have hb := h.notBlocked
  unfold tasks
  split at hc <;> omega

/-- a completed request leaves no connection, watchdog or handler task behind -/
theorem C18_none_left (cfg : Cfg) (hg : cfg.good = true) (evs : List Ev)
    (hidle : (run cfg {} evs).cur = none ∧ (run cfg {} evs).returning = none) :
    (run cfg {} evs).conns = [] ∧ tasks (run cfg {} evs) = 0 := by
  have h := reachable_inv cfg hg evs
  have hc := h.connsShort
  simp only [hidle.1, hidle.2, Option.isSome_none, Bool.or_self, Bool.false_eq_true, if_false, Nat.le_zero,
    List.length_eq_zero_iff] at hc
  simp [tasks, hc, h.notBlocked]

/-- both client functions of the working tree -/
theorem C18 (evs : List Ev) :
    (run Chf.Gen.abmfClient {} evs).conns.length ≤ 1 ∧ (run Chf.Gen.ratingClient {} evs).conns.length ≤ 1 :=
  ⟨(C18_bounded _ cfg_good.1 evs).1, (C18_bounded _ cfg_good.2 evs).1⟩

/-- without the deferred Close every request leaves its connection open (the code before 396fba5) -/
example : (run before {} [.start, .answer 1, .ret, .start, .answer 2, .ret, .start, .answer 3, .ret]).conns.length = 3 := by
  decide
/-- non-vacuity: the same history on the working tree's machine -/
example : (run Chf.Gen.abmfClient {} [.start, .answer 1, .ret, .start, .answer 2, .ret, .start, .answer 3, .ret]).conns = [] := by
  decide

end Chf.Props.C18
