import ChfVerif.Props.C19
/-
  C18 — Diameter connections and background tasks stay bounded as requests accumulate.

  In the client machine of Model/DiamClient.lean a connection is open from the `start` of its request to the
  `ret` that runs the deferred Close.  Every open connection has its reader task and, when the sm.Client is built
  with `EnableWatchdog`, a watchdog task; a handler blocked on a channel is a task as well; and a watchdog whose
  connection was closed before go-diameter's close notification got armed (no message read since the handshake:
  exactly the request that timed out) is never told and stays for ever (`WSt.orphans`, see the model).

  For the configuration of the working tree (`C19.cfg_good` and `cfg_quiet`, by decide over the regenerated facts)
  and every scheduler, at most one connection is open per subscriber and peer at any time, none once the request
  has returned, and no handler or watchdog task is ever left behind — however many requests have been processed
  (the bound does not depend on the length of the history).  `C18_watchdog_leak` is the converse: with the
  watchdog enabled, n requests that time out leave n watchdog tasks behind, for every n.
-/
namespace Chf.Props.C18
open Chf.DiamClient Chf.Props.C19

/-- the working tree builds both sm.Clients without the per-connection watchdog -/
theorem cfg_quiet : Chf.Gen.abmfClient.watchdog = false ∧ Chf.Gen.ratingClient.watchdog = false := by decide

/-- the ghost state does not influence the machine -/
theorem stepW_st (cfg : Cfg) (w : WSt) (ev : Ev) : (stepW cfg w ev).st = step cfg w.st ev := by
  unfold stepW
  cases ev with
  | start => rfl
  | timeout => rfl
  | startSlow => rfl
  | dialDone k => rfl
  | dialGiveUp => rfl
  | staleAnswer j => rfl
  | answer j => simp only; split <;> rfl
  | ret =>
    simp only
    split
    · split <;> rfl
    · rfl

theorem runW_st (cfg : Cfg) (evs : List Ev) : ∀ w, (runW cfg w evs).st = run cfg w.st evs := by
  induction evs with
  | nil => intro w; rfl
  | cons e r ih => intro w; simp only [runW, run, List.foldl_cons] at *; rw [ih, stepW_st]

/-- without the watchdog no task can be orphaned -/
theorem stepW_orphans (cfg : Cfg) (hw : cfg.watchdog = false) (w : WSt) (ev : Ev) :
    (stepW cfg w ev).orphans = w.orphans := by
  unfold stepW
  cases ev with
  | start => rfl
  | timeout => rfl
  | startSlow => rfl
  | dialDone k => rfl
  | dialGiveUp => rfl
  | staleAnswer j => rfl
  | answer j => simp only; split <;> rfl
  | ret =>
    simp only
    split
    · split
      · simp [hw]
      · rfl
    · rfl

theorem runW_orphans (cfg : Cfg) (hw : cfg.watchdog = false) (evs : List Ev) :
    ∀ w, (runW cfg w evs).orphans = w.orphans := by
  induction evs with
  | nil => intro w; rfl
  | cons e r ih => intro w; simp only [runW, List.foldl_cons] at *; rw [ih, stepW_orphans cfg hw]

theorem C18_bounded (cfg : Cfg) (hg : cfg.good = true) (hw : cfg.watchdog = false) (evs : List Ev) :
    (runW cfg {} evs).st.conns.length ≤ 1 ∧ tasks cfg (runW cfg {} evs) ≤ 1 := by
  have h := reachable_inv cfg hg evs
  have hc := h.connsShort
  have hb := h.notBlocked
  have ho := runW_orphans cfg hw evs {}
  have hs := runW_st cfg evs {}
  unfold tasks
  rw [hs, ho, hw]
  simp only [Bool.false_eq_true, if_false, Nat.one_mul]
  show (run cfg {} evs).conns.length ≤ 1 ∧ (run cfg {} evs).conns.length + (run cfg {} evs).blocked + 0 ≤ 1
  split at hc <;> omega

/-- a completed request leaves no connection, watchdog or handler task behind -/
theorem C18_none_left (cfg : Cfg) (hg : cfg.good = true) (hw : cfg.watchdog = false) (evs : List Ev)
    (hidle : (runW cfg {} evs).st.cur = none ∧ (runW cfg {} evs).st.returning = none) :
    (runW cfg {} evs).st.conns = [] ∧ tasks cfg (runW cfg {} evs) = 0 := by
  have h := reachable_inv cfg hg evs
  have hs := runW_st cfg evs {}
  have ho := runW_orphans cfg hw evs {}
  rw [hs] at hidle ⊢
  have hc := h.connsShort
  change (run cfg {} evs).cur = none ∧ (run cfg {} evs).returning = none at hidle
  simp only [hidle.1, hidle.2, Option.isSome_none, Bool.or_self, Bool.false_eq_true, if_false, Nat.le_zero,
    List.length_eq_zero_iff] at hc
  refine ⟨hc, ?_⟩
  unfold tasks
  rw [hs, ho]
  show _ * (run cfg {} evs).conns.length + (run cfg {} evs).blocked + 0 = 0
  simp [hc, h.notBlocked]

/-- both client functions of the working tree -/
theorem C18 (evs : List Ev) :
    ((runW Chf.Gen.abmfClient {} evs).st.conns.length ≤ 1 ∧ tasks Chf.Gen.abmfClient (runW Chf.Gen.abmfClient {} evs) ≤ 1) ∧
    ((runW Chf.Gen.ratingClient {} evs).st.conns.length ≤ 1 ∧ tasks Chf.Gen.ratingClient (runW Chf.Gen.ratingClient {} evs) ≤ 1) :=
  ⟨C18_bounded _ cfg_good.1 cfg_quiet.1 evs, C18_bounded _ cfg_good.2 cfg_quiet.2 evs⟩

/-! ### the dial phase

  A peer may accept the connection and take seconds over the TLS handshake or the capabilities exchange.  The code
  at hand dials synchronously (`syncDial`, regenerated): the request waits for its connection, so the connection
  belongs to the request from the moment it exists and the deferred Close covers it.  A dial made in a task of its
  own with a deadline lets the request return first; the connection that the set-up produces afterwards belongs to
  nobody and is never closed. -/

/-- both client functions of the working tree dial synchronously -/
theorem cfg_sync_dial : Chf.Gen.abmfClient.syncDial = true ∧ Chf.Gen.ratingClient.syncDial = true := by decide

/-- no connection set-up outlives its request, and while a request is still dialling no connection is open — for
    every scheduler and history -/
theorem C18_no_setup_left (cfg : Cfg) (hg : cfg.good = true) (evs : List Ev) :
    (run cfg {} evs).lateDials = [] ∧ ((run cfg {} evs).dialing.isSome = true → (run cfg {} evs).conns = []) := by
  have h := reachable_inv cfg hg evs
  refine ⟨h.lateNone, ?_⟩
  intro hd
  cases hk : (run cfg {} evs).dialing with
  | none => simp [hk] at hd
  | some k => exact (h.dialExcl k hk).2.2.1

/-- a connection set-up that completes at once is the `start` of the machine without a dial phase -/
theorem dial_instant (cfg : Cfg) (s : St) (hd : s.dialing = none) (hl : s.lateDials = []) :
    step cfg (step cfg s .startSlow) (.dialDone s.next) = step cfg s .start := by
  by_cases hw : s.wedged = true
  · simp [step, hw, hd, hl]
  · by_cases hser : cfg.serial = true
    · by_cases hc : s.cur.isSome = true
      · simp [step, hw, hc, hd, hl, hser]
      · by_cases hr : s.returning.isSome = true
        · simp [step, hw, hc, hr, hd, hl, hser]
        · by_cases hb : s.blocked > 0
          · simp [step, hw, hc, hr, hb, hd, hl, hser]
          · simp [step, hw, hc, hr, hb, hd, hser]
    · by_cases hb : s.blocked > 0
      · simp [step, hw, hb, hd, hl, hser]
      · simp [step, hw, hb, hd, hser]

/-- a request that gives up on its dial and returns; the set-up completes afterwards -/
def abandonedDial (k : Nat) : List Ev := [.startSlow, .dialGiveUp, .ret, .dialDone k]

def abandonedRun : Nat → Nat → List Ev
  | _, 0 => []
  | k, n + 1 => abandonedDial k ++ abandonedRun (k + 1) n

structure Idle (s : St) : Prop where
  cur : s.cur = none
  returning : s.returning = none
  dialing : s.dialing = none
  wedged : s.wedged = false
  blocked : s.blocked = 0
  late : s.lateDials = []
  connsOld : ∀ j ∈ s.conns, j < s.next

theorem abandonedDial_leaks (cfg : Cfg) (ha : cfg.syncDial = false) (s : St) (hi : Idle s) :
    Idle (run cfg s (abandonedDial s.next)) ∧ (run cfg s (abandonedDial s.next)).next = s.next + 1 ∧
    (run cfg s (abandonedDial s.next)).conns.length = s.conns.length + 1 := by
  obtain ⟨h1, h2, h3, h4, h5, h6, h7⟩ := hi
  have hkeep : s.conns.filter (· != s.next) = s.conns := by
    rw [List.filter_eq_self]
    intro j hj
    have := h7 j hj
    simp only [bne_iff_ne, ne_eq]
    omega
  have hconns : (if cfg.closesConn = true then s.conns.filter (· != s.next) else s.conns) = s.conns := by
    split <;> simp [hkeep]
  simp only [run, abandonedDial, List.foldl_cons, List.foldl_nil, step, h1, h2, h3, h4, h5, h6, ha,
    Option.isSome_none, Bool.or_self, Bool.false_eq_true, if_false, Nat.lt_irrefl, gt_iff_lt, hconns,
    List.contains_cons, BEq.rfl, Bool.true_or, if_true, List.erase_cons_head, reduceCtorEq, Bool.and_false]
  refine ⟨⟨?_, ?_, ?_, ?_, ?_, ?_, ?_⟩, ?_, ?_⟩
  · rfl
  · rfl
  · rfl
  · rfl
  · rfl
  · rfl
  · intro j hj
    show j < s.next + 1
    have hj' : j = s.next ∨ j ∈ s.conns := by simpa using hj
    rcases hj' with rfl | hj'
    · omega
    · have := h7 j hj'; omega
  · trivial
  · show (s.next :: s.conns).length = s.conns.length + 1
    simp

theorem abandonedRun_leaks (cfg : Cfg) (ha : cfg.syncDial = false) (n : Nat) :
    ∀ s, Idle s → (run cfg s (abandonedRun s.next n)).conns.length = s.conns.length + n := by
  induction n with
  | zero => intro s _; rfl
  | succ m ih =>
    intro s hi
    obtain ⟨hi', hn, hl⟩ := abandonedDial_leaks cfg ha s hi
    have e : run cfg s (abandonedRun s.next (m + 1))
        = run cfg (run cfg s (abandonedDial s.next)) (abandonedRun (run cfg s (abandonedDial s.next)).next m) := by
      rw [hn]
      simp only [abandonedRun, run, List.foldl_append]
    rw [e, ih _ hi', hl]
    omega

/-- with a dial that the request can give up on, n requests to a peer that is slow to shake hands leave n
    connections behind — and n reader tasks: no bound -/
theorem C18_async_dial_leak (cfg : Cfg) (ha : cfg.syncDial = false) (n : Nat) :
    (run cfg {} (abandonedRun 1 n)).conns.length = n ∧ n ≤ tasks cfg ⟨run cfg {} (abandonedRun 1 n), [], 0⟩ := by
  have h := abandonedRun_leaks cfg ha n {} ⟨rfl, rfl, rfl, rfl, rfl, rfl, by simp⟩
  have h' : (run cfg {} (abandonedRun 1 n)).conns.length = n := by simpa using h
  refine ⟨h', ?_⟩
  unfold tasks
  simp only [h']
  split <;> omega

/-- the machine of a client that dials in a task of its own and stops waiting after 2 s -/
def asyncDial : Cfg := { Chf.Gen.ratingClient with syncDial := false, dialDeadlineMs := 2000 }
example : (run asyncDial {} [.startSlow, .dialGiveUp, .ret, .dialDone 1]).conns = [1] := by decide
example : (run asyncDial {} (abandonedRun 1 3)).conns.length = 3 := by decide
/-- non-vacuity: the same peer against the working tree's machine — the request waits, the connection is its own -/
example : (run Chf.Gen.ratingClient {} [.startSlow, .dialGiveUp, .dialDone 1, .answer 1, .ret]).conns = []
    ∧ (run Chf.Gen.ratingClient {} [.startSlow, .dialGiveUp, .dialDone 1, .answer 1, .ret]).log = [.own 1] := by decide

/-! ### the watchdog leak (the code before the `EnableWatchdog` repair) -/

/-- one request that times out and returns -/
def timedOut : List Ev := [.start, .timeout, .ret]

structure Quiet (w : WSt) : Prop where
  cur : w.st.cur = none
  returning : w.st.returning = none
  wedged : w.st.wedged = false
  blocked : w.st.blocked = 0
  buf : w.st.buf = []
  conns : w.st.conns = []
  armed : w.armed = []
  dialing : w.st.dialing = none

theorem timedOut_leaks (cfg : Cfg) (hg : cfg.good = true) (hw : cfg.watchdog = true) (w : WSt) (hq : Quiet w) :
    Quiet (runW cfg w timedOut) ∧ (runW cfg w timedOut).orphans = w.orphans + 1 := by
  have hc : cfg.closesConn = true := (Cfg.good_unpack hg).closesConn
  obtain ⟨st, armed, orphans⟩ := w
  obtain ⟨h1, h2, h3, h4, h5, h6, h7, h8⟩ := hq
  simp only at h1 h2 h3 h4 h5 h6 h7 h8
  subst h7
  simp only [runW, timedOut, List.foldl_cons, List.foldl_nil, stepW, step, h1, h2, h3, h4, h5, h6, h8, hc, hw,
    Option.isSome_none, Bool.or_self, Bool.false_eq_true, if_false, Nat.lt_irrefl, gt_iff_lt, drain, takeMsg,
    List.find?_nil, if_true, List.filter_cons, List.filter_nil, bne_self_eq_false, List.contains_nil,
    Bool.not_false, Bool.and_self, Bool.and_false]
  refine ⟨⟨?_, ?_, ?_, ?_, ?_, ?_, ?_, ?_⟩, ?_⟩ <;> first | rfl | trivial | assumption

/-- with the watchdog enabled, n requests that time out leave n watchdog tasks behind: no bound -/
theorem C18_watchdog_leak (cfg : Cfg) (hg : cfg.good = true) (hw : cfg.watchdog = true) (n : Nat) :
    (runW cfg {} (List.replicate n timedOut).flatten).orphans = n ∧
    tasks cfg (runW cfg {} (List.replicate n timedOut).flatten) = n := by
  have key : ∀ n (w : WSt), Quiet w →
      Quiet (runW cfg w (List.replicate n timedOut).flatten) ∧
      (runW cfg w (List.replicate n timedOut).flatten).orphans = w.orphans + n := by
    intro n
    induction n with
    | zero => intro w hq; exact ⟨hq, rfl⟩
    | succ m ih =>
      intro w hq
      have h1 := timedOut_leaks cfg hg hw w hq
      have h2 := ih _ h1.1
      have e : runW cfg w (List.replicate (m + 1) timedOut).flatten
          = runW cfg (runW cfg w timedOut) (List.replicate m timedOut).flatten := by
        simp [runW, List.replicate_succ, List.foldl_append]
      rw [e]
      refine ⟨h2.1, ?_⟩
      rw [h2.2, h1.2]; omega
  have h := key n {} ⟨rfl, rfl, rfl, rfl, rfl, rfl, rfl, rfl⟩
  refine ⟨by simpa using h.2, ?_⟩
  unfold tasks
  rw [h.1.conns, h.1.blocked, h.2]
  simp

/-- the machine of the code before the repair: three time-outs, three watchdogs left -/
def withWatchdog : Cfg := { Chf.Gen.abmfClient with watchdog := true }
example : (runW withWatchdog {} [.start, .timeout, .ret, .start, .timeout, .ret, .start, .timeout, .ret]).orphans = 3 := by
  decide
/-- an answered request arms the close notification: nothing is left -/
example : (runW withWatchdog {} [.start, .answer 1, .ret, .start, .answer 2, .ret]).orphans = 0 := by decide
/-- without the deferred Close every request leaves its connection open (the code before 396fba5) -/
example : (run before {} [.start, .answer 1, .ret, .start, .answer 2, .ret, .start, .answer 3, .ret]).conns.length = 3 := by
  decide
/-- non-vacuity: the same histories on the working tree's machine -/
example : (runW Chf.Gen.abmfClient {} [.start, .answer 1, .ret, .start, .timeout, .ret, .start, .answer 3, .ret]).st.conns = []
    ∧ tasks Chf.Gen.abmfClient (runW Chf.Gen.abmfClient {} [.start, .answer 1, .ret, .start, .timeout, .ret]) = 0 := by
  decide

end Chf.Props.C18
