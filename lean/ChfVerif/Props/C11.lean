import ChfVerif.Model.LockDiscipline
import ChfVerif.Lemmas.LockDiscipline
import ChfVerif.Gen.LockSites
import ChfVerif.Props.C12
import ChfVerif.Lemmas.ChargingRecords
/-
  C11 — no request crashes the service or wedges a subscriber.

  Proved here: the *wedge* half, for every request whatsoever.  `C11_lock_released`: around every `Lock()`
  statement of the request path (regenerated list Gen.lockSites, each of an accepted shape by `decide`), whatever
  the rest of the function does and whichever of its statements panic, the mutex is free when the function is
  left and no second Unlock / Lock happens.  So no request — rejected, failed or panicking — leaves the
  subscriber (or the global sequence lock) held, and a later request is never blocked by an earlier one.

  The *status* half (unacceptable input is answered 4xx, never 5xx / a panic) is proved for the inputs of the
  charging model (C12.C12_status_set, re-exported below) and decided on generated raw requests for the rest
  (members absent / null / mistyped, odd identifiers, all path parameters): partial.
-/
namespace Chf.Props.C11
open Chf.LockDiscipline

/-- every Lock() of the request path has one of the accepted shapes -/
theorem sites_ok : Chf.Gen.lockSites.all LockSite.ok = true := by decide

/-- no request handler waits for the NF consumer (recharge notification) while it holds a subscriber or context
    mutex: a consumer that answers late, never, or by sending a request of its own cannot keep the subscriber
    blocked (regenerated fact `peerWaits`; the run-time side is the `notifyslow` / `notifyreenter` cases) -/
theorem sites_prompt : Chf.Gen.lockSites.all LockSite.prompt = true := by decide

/-- there is something to talk about: the subscriber lock is taken in create, update, release and recharge -/
theorem sites_cover : 4 ≤ Chf.Gen.lockSites.length := by decide

theorem finish_unlock (m : M) (h : m.held = true) (hf : m.fatal = false) (hd : m.deferred = [.unlock]) :
    (finish m).held = false ∧ (finish m).fatal = false := by
  unfold finish; rw [hd]; simp [runDeferred, doUnlock, h, hf]

theorem exec_deferNext (rest : List Stmt) (hr : rest.all plain = true) :
    ∀ (i : Nat) (p : Nat → Bool) (m : M), m.held = true → m.fatal = false → m.deferred = [.unlock] →
      (exec rest i p m).held = false ∧ (exec rest i p m).fatal = false := by
  induction rest with
  | nil => intro i p m h hf hd; exact finish_unlock m h hf hd
  | cons s r ih =>
    intro i p m h hf hd
    simp only [List.all_cons, Bool.and_eq_true] at hr
    obtain ⟨hs, hr⟩ := hr
    cases s <;> simp [plain] at hs
    · simp only [exec]; exact ih hr _ p m h hf hd
    · simp only [exec]
      split
      · exact finish_unlock m h hf hd
      · exact ih hr _ p m h hf hd
    · simp only [exec]; exact finish_unlock m h hf hd

theorem finish_guarded (m : M) (hinv : m.held = m.flag) (hf : m.fatal = false) (hd : m.deferred = [.guarded]) :
    (finish m).held = false ∧ (finish m).fatal = false := by
  unfold finish; rw [hd]
  cases hfl : m.flag <;> simp [runDeferred, doGuarded, doUnlock, hfl, hf, hinv ▸ hfl] <;> simp_all

theorem exec_guarded (rest : List Stmt) (hr : rest.all plainOrGuarded = true) :
    ∀ (i : Nat) (p : Nat → Bool) (m : M), m.held = m.flag → m.fatal = false → m.deferred = [.guarded] →
      (exec rest i p m).held = false ∧ (exec rest i p m).fatal = false := by
  induction rest with
  | nil => intro i p m h hf hd; exact finish_guarded m h hf hd
  | cons s r ih =>
    intro i p m h hf hd
    simp only [List.all_cons, Bool.and_eq_true] at hr
    obtain ⟨hs, hr⟩ := hr
    cases s <;> simp [plainOrGuarded] at hs
    · -- guardedUnlock
      simp only [exec]
      apply ih hr
      · cases hfl : m.flag <;> simp [doGuarded, doUnlock, hfl, h] <;> simp_all
      · cases hfl : m.flag <;> simp [doGuarded, doUnlock, hfl, hf] <;> simp_all
      · cases hfl : m.flag <;> simp [doGuarded, doUnlock, hfl, hd] <;> simp_all
    · simp only [exec]; exact ih hr _ p m h hf hd
    · simp only [exec]
      split
      · exact finish_guarded m h hf hd
      · exact ih hr _ p m h hf hd
    · simp only [exec]; exact finish_guarded m h hf hd

theorem exec_free (rest : List Stmt) (hr : rest.all plain = true) :
    ∀ (i : Nat) (p : Nat → Bool) (m : M), m.held = false → m.fatal = false → m.deferred = [] →
      (exec rest i p m).held = false ∧ (exec rest i p m).fatal = false := by
  induction rest with
  | nil => intro i p m h hf hd; simp [exec, finish, hd, runDeferred, h, hf]
  | cons s r ih =>
    intro i p m h hf hd
    simp only [List.all_cons, Bool.and_eq_true] at hr
    obtain ⟨hs, hr⟩ := hr
    cases s <;> simp [plain] at hs
    · simp only [exec]; exact ih hr _ p m h hf hd
    · simp only [exec]
      split
      · simp [finish, hd, runDeferred, h, hf]
      · exact ih hr _ p m h hf hd
    · simp only [exec]; simp [finish, hd, runDeferred, h, hf]

/-- C11 (no wedge): for a lock site of an accepted shape, any rest of the function (without further Lock or
    unguarded Unlock of that mutex — which `LockSite.ok` records) and any choice of panicking statements, the
    mutex is released exactly once. -/
theorem C11_lock_released (s : LockSite) (hs : s.ok = true) (rest : List Stmt) (hr : restOK s.kind rest = true)
    (panics : Nat → Bool) :
    (exec (bodyOf s.kind rest) 0 panics {}).held = false ∧ (exec (bodyOf s.kind rest) 0 panics {}).fatal = false := by
  have hk : s.kind ≤ 2 := by simp [LockSite.ok] at hs; exact hs.1.1.1
  have h3 : s.kind = 0 ∨ s.kind = 1 ∨ s.kind = 2 := by omega
  rcases h3 with h0 | h1 | h2
  · rw [h0] at hr ⊢
    simp only [restOK, show ¬ (0 = 1) by decide, if_false] at hr
    simp only [bodyOf, List.cons_append, List.nil_append, exec, Bool.false_eq_true, if_false]
    exact exec_deferNext rest hr _ panics _ rfl rfl rfl
  · rw [h1] at hr ⊢
    simp only [restOK, if_true] at hr
    simp only [bodyOf, List.cons_append, List.nil_append, exec, Bool.false_eq_true, if_false]
    exact exec_guarded rest hr _ panics _ rfl rfl rfl
  · rw [h2] at hr ⊢
    simp only [restOK, show ¬ (2 = 1) by decide, if_false] at hr
    simp only [bodyOf, List.cons_append, List.nil_append, exec, Bool.false_eq_true, if_false, doUnlock, if_true]
    exact exec_free rest hr _ panics _ rfl rfl rfl

/-- … for every Lock() of the working tree's request path -/
theorem C11 (s : LockSite) (hmem : s ∈ Chf.Gen.lockSites) (rest : List Stmt) (hr : restOK s.kind rest = true)
    (panics : Nat → Bool) :
    (exec (bodyOf s.kind rest) 0 panics {}).held = false ∧ (exec (bodyOf s.kind rest) 0 panics {}).fatal = false :=
  C11_lock_released s (List.all_eq_true.mp sites_ok s hmem) rest hr panics

/-! ### every access to the state a subscriber's requests share is made under the subscriber's mutex -/

/-- regenerated fact (harness/cmd/stateaccess.go, `decide`): the functions that touch subscriber state (session map, records,
    reservations, rating modes, unit costs, request numbers, notification address, the subscriber's Diameter clients) where they do not
    hold the subscriber's mutex themselves are reached from the HTTP handlers only through calls made while it is held -/
theorem state_access_under_lock : stateAccessOK Chf.Gen.fnFacts Chf.Gen.callFacts = true :=
  Chf.Props.C12.C12_state_access_under_lock

/-- there is something to talk about: create, update, release and recharge take the mutex themselves and touch subscriber state
    under it; the credit-control loop touches it relying on its callers -/
theorem state_access_cover :
    4 ≤ (Chf.Gen.fnFacts.filter fun f => f.ownLock && decide (0 < f.held)).length ∧
    1 ≤ (needsLock Chf.Gen.fnFacts Chf.Gen.callFacts).length ∧
    1 ≤ (Chf.Gen.fnFacts.filter FnFact.root).length := by decide

/-- C11 / C09 / C12 (no unsynchronised access): from no HTTP handler is there a chain of calls, none of them made with the
    subscriber's mutex held, to a function that touches subscriber state without holding the mutex itself.  So a look-up in
    the session map cannot run next to a create or a release of the same subscriber (no "concurrent map read and map write"
    crash, no stale record), whatever the requests in flight. -/
theorem C11_no_unguarded_access (r g : FnFact) (hr : r ∈ Chf.Gen.fnFacts) (hg : g ∈ Chf.Gen.fnFacts)
    (hroot : r.root = true) (hrel : g.relies = true) : ¬ UnheldPath Chf.Gen.callFacts r.id g.id := by
  intro hp
  have hok := state_access_under_lock
  simp only [stateAccessOK, Bool.and_eq_true] at hok
  have hgn : g.id ∈ needsLock Chf.Gen.fnFacts Chf.Gen.callFacts := by
    have : g.id ∈ needs0 Chf.Gen.fnFacts := by
      simp only [needs0, List.mem_map, List.mem_filter]
      exact ⟨g, ⟨hg, hrel⟩, rfl⟩
    have hsub : ∀ x ∈ needs0 Chf.Gen.fnFacts, x ∈ needsLock Chf.Gen.fnFacts Chf.Gen.callFacts := by decide
    exact hsub _ this
  have hrn := unheldPath_closed hok.1 hp hgn
  have := List.all_eq_true.mp hok.2 r hr
  simp [hroot, hrn] at this

/-- what holding the mutex at every access buys (mutual-exclusion model, every scheduler, any number of threads): if every
    thread's program locks before it accesses and unlocks only what it holds, then every access ever made is made by the
    thread that holds the mutex at that moment - two requests never touch the shared state at the same time -/
theorem C11_mutual_exclusion (prog : Nat → List Ev) (hg : ∀ i, guarded false (prog i) = true) (sched : List Nat) :
    ∀ e ∈ (Sys.run { prog := prog } sched).log, e.2 = some e.1 := by
  have hi : Inv { prog := prog } := by intro i; simpa using hg i
  have hl : LogOK { prog := prog } := by intro e he; simp at he
  exact (run_inv sched _ hi hl).2

/-- the discipline is needed: a thread that accesses before it locks (the session look-up moved in front of Lock()) makes an
    access while ANOTHER thread holds the mutex -/
example : (Sys.run { prog := fun i => if i = 0 then [.lock, .acc, .unlock] else [.acc, .lock, .unlock] } [0, 1]).log
    = [(1, some 0)] := by decide

/-- C11 (status, modelled inputs): every request of the charging model's input space — any subscriber
    identifier and consumer name as byte strings, any absent consumer identification, any malformed PLMN id or
    incomplete PDU session information, any usage list, any session reference, any recharging path parameter — is
    answered 2xx or 4xx, never 5xx, and a 4xx answer leaves accounts, reservations, rating modes, session maps and
    records (every lock-protected map) as they were. -/
theorem C11_status_modelled (guard : Chf.Charging.SplitGuard) (s : Chf.Charging.State) (op : Chf.Charging.Op)
    (h : ∀ a b c, op ≠ .credit a b c) :
    (Chf.Charging.step guard s op).2.status ∈ [201, 200, 204, 400, 404] ∧
    ((Chf.Charging.step guard s op).2.status = 400 ∨ (Chf.Charging.step guard s op).2.status = 404 →
      (Chf.Charging.step guard s op).1.accts = s.accts ∧
      ∀ supi, Chf.Charging.ueView (Chf.Charging.step guard s op).1 supi = Chf.Charging.ueView s supi) :=
  ⟨Chf.Props.C12.C12_status_set guard s op h,
   fun h4 => ⟨(Chf.Props.C12.C12_reject_no_money_no_records guard s op h4).1,
              (Chf.Props.C12.C12_reject_no_money_no_records guard s op h4).2.2.2⟩⟩

/-- C11 (no session whose CDR file cannot be written): a create for a SUPI that cannot name the file
    /tmp/<supi>.cdr — a path separator, a NUL octet, more than 251 octets — is refused with 400 and changes
    nothing, so no later update or release can fail while writing that file (the defect repaired in 93bac0b) -/
theorem C11_supi_names_a_file (guard : Chf.Charging.SplitGuard) (s : Chf.Charging.State) (r : Chf.Charging.Req)
    (h : r.supi.contains 47 = true ∨ r.supi.contains 0 = true ∨ 255 < r.supi.length + 4) :
    Chf.Charging.step guard s (.create r) = (s, { status := 400 }) := by
  have hrej : Chf.Charging.supiAccepted r.supi = false := by
    unfold Chf.Charging.supiAccepted
    rcases h with h | h | h
    · rw [h]; simp
    · rw [h]; simp
    · have : decide (r.supi.length + 4 ≤ 255) = false := by simp; omega
      rw [this]; simp
  show Chf.Charging.create s r = _
  exact Chf.Charging.create_rej s r (Or.inr hrej)

/-- non-vacuity: "imsi-1/2" is refused, "imsi-12" is not -/
example : Chf.Charging.supiAccepted (Chf.Charging.imsiPrefix ++ [49, 47, 50]) = false ∧
    Chf.Charging.supiAccepted (Chf.Charging.imsiPrefix ++ [49, 50]) = true := by decide

/-- the shape is needed: an explicit Unlock on every error return (the code before 87d5a34) leaves the mutex
    held when a statement before it panics -/
example : (exec [.lock, .risky, .unlock] 0 (fun _ => true) {}).held = true := by decide
/-- non-vacuity: a guarded body whose third statement panics, and one that unlocks early and returns -/
example : restOK 1 [.risky, .guardedUnlock, .risky, .ret] = true ∧
    (exec (bodyOf 1 [.risky, .guardedUnlock, .risky, .ret]) 0 (fun i => i == 6) {}).held = false := by decide

end Chf.Props.C11
