import ChfVerif.Lemmas.ChargingStep
/-
  C01 — credit is conserved.

  `total s supi rg` = stored account balance + reservation the CHF holds for (supi, rg).
  Every operation changes it by exactly  + money credited − unit cost × online usage reported,
  hence over any history  total = initial total + Σ credits − Σ unit cost × usage.

  The property's quantifier ("rating and account servers reachable, products fit the Unsigned32
  AVPs, tariff constant") is the decidable predicate `opOKb` / `runOKb`, evaluated along the run.
-/
namespace Chf.Props.C01
open Chf Chf.Charging

theorem creditedOp_charged {s : State} {op : Op} {x} (h : chargedUsages s op = some x) (supi : Bytes) (rg : Int) :
    creditedOp s op supi rg = 0 := by
  cases op <;> simp [chargedUsages] at h <;> rfl

/-- One operation: the (balance + reservation) of every subscriber and rating group moves by exactly
    the money credited minus the rated online usage of that operation. -/
theorem C01_step (guard : SplitGuard) (s : State) (op : Op) (hok : opOKb s op = true)
    (supi : Bytes) (rg : Int) (hrg : int32 rg) :
    total (step guard s op).1 supi rg =
      (total s supi rg).map (fun m => m + creditedOp s op supi rg - ratedOp s op supi rg) := by
  unfold opOKb at hok
  cases hc : chargedUsages s op with
  | some x =>
    obtain ⟨supi', trigs, groups, us⟩ := x
    simp only [hc] at hok
    obtain ⟨ha, hg, hgo, hgs⟩ := charged_step (guard := guard) hc
    obtain ⟨m, f⟩ := creditControl_money s.tariffs supi' trigs rg hrg us s.accts groups hok
    rw [creditedOp_charged hc]
    unfold ratedOp
    simp only [hc]
    by_cases hs : supi' = supi
    · subst hs
      simp only [if_true]
      unfold total
      rw [ha, hg, m, hgs]
      cases moneyOf s.accts groups supi' rg with
      | none => rfl
      | some v => simp only [Option.map_some, Option.some.injEq]; omega
    · simp only [hs, if_false]
      have hne : supi ≠ supi' := fun h => hs h.symm
      have : total (step guard s op).1 supi rg = total s supi rg :=
        total_congr (by rw [ha]; exact f _ _ hne) (by rw [hgo _ hne])
      rw [this]
      cases total s supi rg with
      | none => rfl
      | some v => simp only [Option.map_some, Option.some.injEq]; omega
  | none =>
    obtain ⟨hres, hbal⟩ := uncharged_step (guard := guard) hc
    have hr0 : ratedOp s op supi rg = 0 := by unfold ratedOp; simp [hc]
    rw [hr0]
    by_cases hcr : ∃ amt, op = .credit supi (u32 rg) amt
    · obtain ⟨amt, hop⟩ := hcr
      subst hop
      unfold total moneyOf creditedOp
      simp only [and_self, if_true]
      rw [hres]
      simp only [step, creditAcct]
      unfold balOf
      cases hf : Abmf.find s.accts supi (u32 rg) with
      | none => simp [hf]
      | some q =>
        simp only
        cases hp : q.parse with
        | none => simp [hf, hp]
        | some v =>
          simp only [Abmf.find_put_same _ hf, Abmf.Quota.parse, Option.map_some, Option.some.injEq]
          omega
    · have hc0 : creditedOp s op supi rg = 0 := by
        unfold creditedOp
        cases op with
        | credit a b c =>
          simp only
          by_cases hab : a = supi ∧ b = u32 rg
          · exact absurd ⟨c, by rw [hab.1, hab.2]⟩ hcr
          · simp [hab]
        | _ => rfl
      rw [hc0]
      have : total (step guard s op).1 supi rg = total s supi rg :=
        total_congr (hbal _ _ (fun a b c hop hab => hcr ⟨c, by rw [hop, hab.1, hab.2]⟩)) (hres _ _)
      rw [this]
      cases total s supi rg with
      | none => rfl
      | some v => simp only [Option.map_some, Option.some.injEq]; omega

/-- the property's quantifier along a history -/
def runOKb (guard : SplitGuard) : State → List Op → Bool
  | _, [] => true
  | s, op :: r => opOKb s op && runOKb guard (step guard s op).1 r

/-- Σ credits − Σ unit cost × usage along a history, for (supi, rg) -/
def netRun (guard : SplitGuard) (supi : Bytes) (rg : Int) : State → List Op → Int
  | _, [] => 0
  | s, op :: r => creditedOp s op supi rg - ratedOp s op supi rg + netRun guard supi rg (step guard s op).1 r

/-- C01: after every history (any number of subscribers, sessions, rating groups, any mix of
    create/update/release/recharge/credit), balance + held reservation = initial + credits −
    unit cost × reported online usage, for every subscriber and rating group. No bound on the history. -/
theorem C01 (guard : SplitGuard) (supi : Bytes) (rg : Int) (hrg : int32 rg) (ops : List Op) :
    ∀ s : State, runOKb guard s ops = true →
      total (run guard s ops) supi rg = (total s supi rg).map (fun m => m + netRun guard supi rg s ops) := by
  induction ops with
  | nil =>
    intro s _
    simp only [run, netRun, Int.add_zero]
    cases total s supi rg <;> rfl
  | cons op r ih =>
    intro s hok
    simp only [runOKb, Bool.and_eq_true] at hok
    simp only [run, netRun]
    rw [ih _ hok.2, C01_step guard s op hok.1 supi rg hrg]
    cases total s supi rg with
    | none => rfl
    | some v => simp only [Option.map_some, Option.some.injEq]; omega

/-- Corollary (refund is exact): in debit mode, once the final usage is rated, the reservation is
    returned to the account except for exactly the price of that usage, and nothing stays reserved. -/
theorem C01_refund_exact {e : Env} {supi : Bytes} {u : Usage} {st : RgState} {b : Int} {s : Bytes}
    (ok : UsageOK e supi u st b s) :
    balOf (debitBranch e supi u st (totalUsed u.cs)).accts supi (u32 u.rg) =
      some (b + st.reserved - ((totalUsed u.cs * costOf s : Nat) : Int)) ∧
    (debitBranch e supi u st (totalUsed u.cs)).st.reserved = 0 := by
  obtain ⟨c1, c2, _, _⟩ := debit_char ok
  rw [c1, debitSpec_money, c2]
  exact ⟨rfl, rfl⟩

end Chf.Props.C01
