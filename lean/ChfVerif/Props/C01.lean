import ChfVerif.Lemmas.ChargingOutage
/-
  C01 — credit is conserved.

  `total s supi rg` = stored account balance + reservation the CHF holds for (supi, rg).
  Every operation changes it by exactly  + money credited − unit cost × online usage reported,
  hence over any history  total = initial total + Σ credits − Σ unit cost × usage.

  The property's quantifier ("rating and account servers reachable, products fit the Unsigned32
  AVPs, tariff constant") is the decidable predicate `opOKb` / `runOKb`, evaluated along the run.

  Across outages (the servers' reachability is part of the state, `Ev.reach` toggles it) the identity
  generalises: every operation moves balance + reservation by  + credited − *booked*  (`accountedOp`, the
  independent statement of what the error paths book: reserve mode books the usage whether or not the
  account server answers, at unit cost 1 when the rating server is unreachable; debit mode books nothing
  unless both answer) — `C01_outage_step`, `C01_outage`; no operation ever creates credit
  (`C01_outage_no_credit_created`); with both servers reachable booked = rated (`C01_booked_eq_rated`).
-/
namespace Chf.Props.C01
open Chf Chf.Charging

theorem creditedOp_charged {s : State} {op : Op} {x} (h : chargedUsages s op = some x) (supi : Bytes) (rg : Int) :
    creditedOp s op supi rg = 0 := by
  cases op <;> simp [chargedUsages] at h <;> rfl

/-- One operation: the (balance + reservation) of every subscriber and rating group moves by exactly
    the money credited minus the rated online usage of that operation. -/
theorem C01_step (guard : SplitGuard) (s : State) (op : Op) (hok : opOKb s op = true)
    (supi : Bytes) (rg : Int) (hrg : int32 rg) :
    total (step guard s op).1 supi rg =
      (total s supi rg).map (fun m => m + creditedOp s op supi rg - ratedOp s op supi rg) := by
  unfold opOKb at hok
  cases hc : chargedUsages s op with
  | some x =>
    obtain ⟨supi', trigs, groups, us⟩ := x
    simp only [hc, Bool.and_eq_true] at hok
    obtain ⟨⟨hau, hru⟩, hok⟩ := hok
    obtain ⟨ha, hg, hgo, hgs⟩ := charged_step (guard := guard) hc
    simp only [seenAccts, seenTariffs, acctsAfter, hau, hru, if_true] at ha hg
    obtain ⟨m, f⟩ := creditControl_money s.tariffs supi' trigs rg hrg us s.accts groups hok
    rw [creditedOp_charged hc]
    unfold ratedOp
    simp only [hc]
    by_cases hs : supi' = supi
    · subst hs
      simp only [if_true]
      unfold total
      rw [ha, hg, m, hgs]
      cases moneyOf s.accts groups supi' rg with
      | none => rfl
      | some v => simp only [Option.map_some, Option.some.injEq]; omega
    · simp only [hs, if_false]
      have hne : supi ≠ supi' := fun h => hs h.symm
      have : total (step guard s op).1 supi rg = total s supi rg :=
        total_congr (by rw [ha]; exact f _ _ hne) (by rw [hgo _ hne])
      rw [this]
      cases total s supi rg with
      | none => rfl
      | some v => simp only [Option.map_some, Option.some.injEq]; omega
  | none =>
    obtain ⟨hres, hbal⟩ := uncharged_step (guard := guard) hc
    have hr0 : ratedOp s op supi rg = 0 := by unfold ratedOp; simp [hc]
    rw [hr0]
    by_cases hcr : ∃ amt, op = .credit supi (u32 rg) amt
    · obtain ⟨amt, hop⟩ := hcr
      subst hop
      unfold total moneyOf creditedOp
      simp only [and_self, if_true]
      rw [hres]
      simp only [step, creditAcct]
      unfold balOf
      cases hf : Abmf.find s.accts supi (u32 rg) with
      | none => simp [hf]
      | some q =>
        simp only
        cases hp : q.parse with
        | none => simp [hf, hp]
        | some v =>
          simp only [Abmf.find_put_same _ hf, Abmf.Quota.parse, Option.map_some, Option.some.injEq]
          omega
    · have hc0 : creditedOp s op supi rg = 0 := by
        unfold creditedOp
        cases op with
        | credit a b c =>
          simp only
          by_cases hab : a = supi ∧ b = u32 rg
          · exact absurd ⟨c, by rw [hab.1, hab.2]⟩ hcr
          · simp [hab]
        | _ => rfl
      rw [hc0]
      have : total (step guard s op).1 supi rg = total s supi rg :=
        total_congr (hbal _ _ (fun a b c hop hab => hcr ⟨c, by rw [hop, hab.1, hab.2]⟩)) (hres _ _)
      rw [this]
      cases total s supi rg with
      | none => rfl
      | some v => simp only [Option.map_some, Option.some.injEq]; omega

/-- the property's quantifier along a history -/
def runOKb (guard : SplitGuard) : State → List Op → Bool
  | _, [] => true
  | s, op :: r => opOKb s op && runOKb guard (step guard s op).1 r

/-- Σ credits − Σ unit cost × usage along a history, for (supi, rg) -/
def netRun (guard : SplitGuard) (supi : Bytes) (rg : Int) : State → List Op → Int
  | _, [] => 0
  | s, op :: r => creditedOp s op supi rg - ratedOp s op supi rg + netRun guard supi rg (step guard s op).1 r

/-- C01: after every history (any number of subscribers, sessions, rating groups, any mix of
    create/update/release/recharge/credit), balance + held reservation = initial + credits −
    unit cost × reported online usage, for every subscriber and rating group. No bound on the history. -/
theorem C01 (guard : SplitGuard) (supi : Bytes) (rg : Int) (hrg : int32 rg) (ops : List Op) :
    ∀ s : State, runOKb guard s ops = true →
      total (run guard s ops) supi rg = (total s supi rg).map (fun m => m + netRun guard supi rg s ops) := by
  induction ops with
  | nil =>
    intro s _
    simp only [run, netRun, Int.add_zero]
    cases total s supi rg <;> rfl
  | cons op r ih =>
    intro s hok
    simp only [runOKb, Bool.and_eq_true] at hok
    simp only [run, netRun]
    rw [ih _ hok.2, C01_step guard s op hok.1 supi rg hrg]
    cases total s supi rg with
    | none => rfl
    | some v => simp only [Option.map_some, Option.some.injEq]; omega

/-- Corollary (refund is exact): in debit mode, once the final usage is rated, the reservation is
    returned to the account except for exactly the price of that usage, and nothing stays reserved. -/
theorem C01_refund_exact {e : Env} {supi : Bytes} {u : Usage} {st : RgState} {b : Int} {s : Bytes}
    (ok : UsageOK e supi u st b s) :
    balOf (debitBranch e supi u st (totalUsed u.cs)).accts supi (u32 u.rg) =
      some (b + st.reserved - ((totalUsed u.cs * costOf s : Nat) : Int)) ∧
    (debitBranch e supi u st (totalUsed u.cs)).st.reserved = 0 := by
  obtain ⟨c1, c2, _, _⟩ := debit_char ok
  rw [c1, debitSpec_money, c2]
  exact ⟨rfl, rfl⟩

/-! ### only ONLINE_CHARGING containers are rated -/

/-- containers whose quota-management indicator is absent, OFFLINE_CHARGING or QUOTA_MANAGEMENT_SUSPENDED add
    nothing to the usage that is rated, wherever they sit among online containers -/
theorem C01_only_online_counted (cs : List Container) : totalUsed cs = totalUsed (cs.filter isOnline) := by
  induction cs with
  | nil => rfl
  | cons c r ih =>
    by_cases h : isOnline c = true
    · simp only [List.filter_cons, h, if_true, totalUsed, ih]
    · simp only [List.filter_cons, h, Bool.false_eq_true, if_false, totalUsed, ih]

theorem C01_only_online_rated (tariffs : List Rating.Tariff) (supi : Bytes) (u : Usage) :
    ratedUsage tariffs supi u = ratedUsage tariffs supi { u with cs := u.cs.filter isOnline } := by
  have ha : anyOnline (u.cs.filter isOnline) = anyOnline u.cs := by
    unfold anyOnline
    induction u.cs with
    | nil => rfl
    | cons c r ih =>
      by_cases h : isOnline c = true
      · simp [List.filter_cons, h]
      · simp only [List.filter_cons, h, Bool.false_eq_true, if_false, List.any_cons, Bool.false_or, ih]
  unfold ratedUsage
  simp only [ha, ← C01_only_online_counted]

/-! ### across outages -/

/-- an operation that does not reach credit control moves the money of (supi, rg) by exactly the credit -/
theorem C01_uncharged (guard : SplitGuard) (s : State) (op : Op) (hc : chargedUsages s op = none)
    (supi : Bytes) (rg : Int) :
    total (step guard s op).1 supi rg = (total s supi rg).map (fun m => m + creditedOp s op supi rg) := by
  obtain ⟨hres, hbal⟩ := uncharged_step (guard := guard) hc
  by_cases hcr : ∃ amt, op = .credit supi (u32 rg) amt
  · obtain ⟨amt, hop⟩ := hcr
    subst hop
    unfold total moneyOf creditedOp
    simp only [and_self, if_true]
    rw [hres]
    simp only [step, creditAcct]
    unfold balOf
    cases hf : Abmf.find s.accts supi (u32 rg) with
    | none => simp [hf]
    | some q =>
      simp only
      cases hp : q.parse with
      | none => simp [hf, hp]
      | some v =>
        simp only [Abmf.find_put_same _ hf, Abmf.Quota.parse, Option.map_some, Option.some.injEq]
        omega
  · have hc0 : creditedOp s op supi rg = 0 := by
      unfold creditedOp
      cases op with
      | credit a b c =>
        simp only
        by_cases hab : a = supi ∧ b = u32 rg
        · exact absurd ⟨c, by rw [hab.1, hab.2]⟩ hcr
        · simp [hab]
      | _ => rfl
    rw [hc0]
    have : total (step guard s op).1 supi rg = total s supi rg :=
      total_congr (hbal _ _ (fun a b c hop hab => hcr ⟨c, by rw [hop, hab.1, hab.2]⟩)) (hres _ _)
    rw [this]
    cases total s supi rg with
    | none => rfl
    | some v => simp only [Option.map_some, Option.some.injEq]; omega

/-- One operation, whatever can be reached: the (balance + reservation) of every subscriber and rating group
    moves by exactly the money credited minus the money the operation booked. -/
theorem C01_outage_step (guard : SplitGuard) (s : State) (op : Op) (hok : opOKx s op = true)
    (supi : Bytes) (rg : Int) (hrg : int32 rg) :
    total (step guard s op).1 supi rg =
      (total s supi rg).map (fun m => m + creditedOp s op supi rg - accountedOp s op supi rg) := by
  unfold opOKx at hok
  cases hc : chargedUsages s op with
  | some x =>
    obtain ⟨supi', trigs, groups, us⟩ := x
    simp only [hc] at hok
    obtain ⟨ha, hg, hgo, hgs⟩ := charged_step (guard := guard) hc
    simp only [seenAccts, seenTariffs, acctsAfter] at ha hg
    obtain ⟨m, f⟩ := creditControl_money_x s.abmfUp s.rfUp s.tariffs supi' trigs rg hrg us s.accts groups hok
    rw [creditedOp_charged hc]
    unfold accountedOp
    simp only [hc]
    by_cases hs : supi' = supi
    · subst hs
      simp only [if_true]
      unfold total
      rw [ha, hg, m, hgs]
      cases moneyOf s.accts groups supi' rg with
      | none => rfl
      | some v => simp only [Option.map_some, Option.some.injEq]; omega
    · simp only [hs, if_false]
      have hne : supi ≠ supi' := fun h => hs h.symm
      have : total (step guard s op).1 supi rg = total s supi rg :=
        total_congr (by rw [ha]; exact f _ _ hne) (by rw [hgo _ hne])
      rw [this]
      cases total s supi rg with
      | none => rfl
      | some v => simp only [Option.map_some, Option.some.injEq]; omega
  | none =>
    have hr0 : accountedOp s op supi rg = 0 := by unfold accountedOp; simp [hc]
    rw [hr0, C01_uncharged guard s op hc]
    cases total s supi rg with
    | none => rfl
    | some v => simp only [Option.map_some, Option.some.injEq]; omega

theorem accountedList_nonneg (a f : Bool) (tariffs : List Rating.Tariff) (supi : Bytes) (trigs : List Nat) (rg : Int)
    (us : List Usage) : ∀ (accts : Abmf.Store) (groups : List (Int × RgState)),
    0 ≤ accountedList a f tariffs supi trigs rg accts groups us := by
  induction us with
  | nil => intro _ _; simp [accountedList]
  | cons u r ih =>
    intro accts groups
    simp only [accountedList]
    have := ih (acctsNext a f tariffs supi trigs accts groups u)
      (usageStep (seenEnv a f accts tariffs) supi trigs groups u).2.1
    split <;> omega

/-- No operation creates credit, whatever can be reached: balance + reservation never exceeds what it was plus
    the money credited. -/
theorem C01_outage_no_credit_created (guard : SplitGuard) (s : State) (op : Op) (hok : opOKx s op = true)
    (supi : Bytes) (rg : Int) (hrg : int32 rg) (m m' : Int)
    (h : total s supi rg = some m) (h' : total (step guard s op).1 supi rg = some m') :
    m' ≤ m + creditedOp s op supi rg := by
  rw [C01_outage_step guard s op hok supi rg hrg, h] at h'
  simp only [Option.map_some, Option.some.injEq] at h'
  have : 0 ≤ accountedOp s op supi rg := by
    unfold accountedOp
    split
    · split
      · exact accountedList_nonneg _ _ _ _ _ _ _ _ _
      · omega
    · omega
  omega

/-- a history: operations and changes of what can be reached -/
inductive Ev
  | op (o : Op)
  | reach (abmfUp rfUp : Bool)

def stepEv (guard : SplitGuard) (s : State) : Ev → State
  | .op o => (step guard s o).1
  | .reach a f => setReach s a f

def runEv (guard : SplitGuard) (s : State) : List Ev → State
  | [] => s
  | e :: r => runEv guard (stepEv guard s e) r

/-- products fit and every server that is reached knows the subscriber, along a history -/
def runOKx (guard : SplitGuard) : State → List Ev → Bool
  | _, [] => true
  | s, .op o :: r => opOKx s o && runOKx guard (step guard s o).1 r
  | s, .reach a f :: r => runOKx guard (setReach s a f) r

/-- Σ credits − Σ booked along a history, for (supi, rg) -/
def netRunX (guard : SplitGuard) (supi : Bytes) (rg : Int) : State → List Ev → Int
  | _, [] => 0
  | s, .op o :: r => creditedOp s o supi rg - accountedOp s o supi rg + netRunX guard supi rg (step guard s o).1 r
  | s, .reach a f :: r => netRunX guard supi rg (setReach s a f) r

/-- C01 across outages: after every history of operations and outages of either server (any length, any
    interleaving), balance + held reservation = initial + credits − booked usage. -/
theorem C01_outage (guard : SplitGuard) (supi : Bytes) (rg : Int) (hrg : int32 rg) (evs : List Ev) :
    ∀ s : State, runOKx guard s evs = true →
      total (runEv guard s evs) supi rg = (total s supi rg).map (fun m => m + netRunX guard supi rg s evs) := by
  induction evs with
  | nil =>
    intro s _
    simp only [runEv, netRunX, Int.add_zero]
    cases total s supi rg <;> rfl
  | cons e r ih =>
    intro s hok
    cases e with
    | op o =>
      simp only [runOKx, Bool.and_eq_true] at hok
      simp only [runEv, stepEv, netRunX]
      rw [ih _ hok.2, C01_outage_step guard s o hok.1 supi rg hrg]
      cases total s supi rg with
      | none => rfl
      | some v => simp only [Option.map_some, Option.some.injEq]; omega
    | reach a f =>
      simp only [runOKx] at hok
      simp only [runEv, stepEv, netRunX]
      rw [ih _ hok]
      rfl

/-- with both servers reachable the booked money is the rated usage: `C01_outage_step` is then `C01_step` -/
theorem C01_booked_eq_rated (s : State) (op : Op) (hup : s.abmfUp = true ∧ s.rfUp = true) (hok : opOKx s op = true)
    (supi : Bytes) (rg : Int) : accountedOp s op supi rg = ratedOp s op supi rg := by
  unfold accountedOp ratedOp
  unfold opOKx at hok
  cases hc : chargedUsages s op with
  | none => rfl
  | some x =>
    obtain ⟨supi', trigs, groups, us⟩ := x
    simp only [hc, hup.1, hup.2] at hok ⊢
    split
    · rename_i hs
      subst hs
      clear hc
      generalize s.accts = accts at hok
      induction us generalizing accts groups with
      | nil => rfl
      | cons u r ih =>
        simp only [ccOKx, Bool.and_eq_true] at hok
        simp only [accountedList, ratedList]
        rw [ih (hok := hok.2)]
        have := accountedUsage_up hok.1
        simp only at this
        rw [this]
    · rfl

end Chf.Props.C01
