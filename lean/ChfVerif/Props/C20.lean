import ChfVerif.Model.Config
import ChfVerif.Gen.Config
/-
  C20 — validated configurations start without crashing; invalid ones are rejected.
  The `valid:` tags the model of `validate` relies on are regenerated from the compiled types on every
  run (Gen/Config.lean) and compared with the expectations below by `decide`.
-/
namespace Chf.Props.C20
open Chf.Config

/-- every section the runtime reads unconditionally is guaranteed present by validation -/
theorem C20_sound (c : Cfg) (h : validate c = true) : startsOK c = true := by
  simp only [validate, sbiValid, rfValid, abmfValid, Bool.and_eq_true] at h
  simp only [startsOK, Bool.and_eq_true]
  obtain ⟨⟨⟨⟨⟨⟨⟨⟨⟨⟨⟨⟨⟨⟨⟨⟨h1, h2⟩, h3⟩, h4⟩, h5⟩, h6⟩, ⟨⟨⟨⟨s1, s2⟩, s3⟩, s4⟩, s5⟩⟩, h8⟩, h9⟩, h10⟩, h11⟩, h12⟩, ⟨r1, r2⟩⟩, h14⟩, h15⟩, h16⟩, h17⟩ := h
  exact ⟨⟨⟨⟨⟨⟨⟨⟨⟨h1, h4⟩, h6⟩, h12⟩, h14⟩, h11⟩, r1⟩, h15⟩, h16⟩, s5⟩

/-- an unknown service name is rejected -/
theorem C20_rejects_unknown_service (c : Cfg) (h : c.services ≠ .ok) : validate c = false := by
  cases hs : c.services <;> simp_all [validate]

/-- an SBI scheme other than http / https (or none) is rejected -/
theorem C20_rejects_bad_scheme (c : Cfg) (h : c.scheme = .other ∨ c.scheme = .absent) : validate c = false := by
  rcases h with h | h <;> simp [validate, sbiValid, h]

/-- a missing mandatory section is rejected -/
theorem C20_rejects_missing_section (c : Cfg)
    (h : c.info = false ∨ c.configuration = false ∨ c.logger = false ∨ c.sbi = false ∨ c.mongodb = false ∨
         c.rf = false ∨ c.abmf = false ∨ c.cgf = false ∨ c.rfTls = false ∨ c.abmfTls = false ∨
         c.serviceList = false) : validate c = false := by
  rcases h with h | h | h | h | h | h | h | h | h | h | h <;> simp [validate, rfValid, abmfValid, h]

/-- https needs the SBI TLS block -/
theorem C20_https_needs_tls (c : Cfg) (h : c.scheme = .https) (ht : c.sbiTls = false) : validate c = false := by
  simp [validate, sbiValid, h, ht]

/-- non-vacuity: the complete baseline validates (and therefore starts) -/
def baseline (s : Scheme) : Cfg :=
  ⟨true, true, true, true, true, true, true, true, true, true, true, true, true, true, true, true, true, true, true, true, s, .ok⟩
example : validate (baseline .http) = true ∧ validate (baseline .https) = true := by decide

/-! ### the tags as compiled (regenerated) -/

def tagOf (field : String) : Option String :=
  (Chf.Gen.validTags.find? (fun t => t.1 == field)).map (fun t => t.2.2.2)

/-- the tags `validate` models: mandatory sections `required`, both Diameter TLS blocks `required`,
    SBI TLS `optional` (made conditional on https by Sbi.validate) -/
theorem C20_tags_as_modelled :
    tagOf "Config.Info" = some "required" ∧ tagOf "Config.Configuration" = some "required" ∧
    tagOf "Config.Logger" = some "required" ∧ tagOf "Info.Version" = some "required,in(1.0.3)" ∧
    tagOf "Configuration.ChfName" = some "required, type(string)" ∧
    tagOf "Configuration.Sbi" = some "required" ∧ tagOf "Configuration.ServiceNameList" = some "required" ∧
    tagOf "Configuration.NrfUri" = some "required, url" ∧ tagOf "Configuration.Mongodb" = some "required" ∧
    tagOf "Configuration.RfDiameter" = some "required" ∧ tagOf "Configuration.AbmfDiameter" = some "required" ∧
    tagOf "Configuration.Cgf" = some "required" ∧ tagOf "Diameter.Tls" = some "required" ∧
    tagOf "Sbi.Tls" = some "optional" ∧ tagOf "Sbi.Scheme" = some "required,scheme" ∧
    tagOf "Sbi.RegisterIPv4" = some "required,host" ∧ tagOf "Sbi.BindingIPv4" = some "required,host" ∧
    tagOf "Sbi.Port" = some "required,port" ∧
    tagOf "Tls.Pem" = some "type(string),minstringlength(1),required" ∧
    tagOf "Tls.Key" = some "type(string),minstringlength(1),required" := by decide +kernel

end Chf.Props.C20
