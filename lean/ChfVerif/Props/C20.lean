import ChfVerif.Model.Config
import ChfVerif.Gen.Config
/-
  C20 — validated configurations start without crashing; invalid ones are rejected.
  The `valid:` tags the model of `validate` relies on are regenerated from the compiled types on every
  run (Gen/Config.lean) and compared with the expectations below by `decide`.
-/
namespace Chf.Props.C20
open Chf.Config

/-- every section the runtime reads unconditionally is guaranteed present by validation -/
theorem C20_sound (c : Cfg) (h : validate c = true) : startsOK c = true := by
  simp only [validate, sbiValid, rfValid, abmfValid, Bool.and_eq_true] at h
  simp only [startsOK, Bool.and_eq_true, Bool.or_eq_true]
  obtain ⟨⟨⟨⟨⟨⟨⟨⟨⟨⟨⟨⟨⟨⟨⟨⟨h1, _⟩, _⟩, h4⟩, _⟩, h6⟩, ⟨_, s5⟩⟩, _⟩, _⟩, _⟩, h11⟩, h12⟩, ⟨⟨r1, _⟩, _⟩⟩, h14⟩, ⟨h15, _⟩⟩, h16⟩, h17⟩ := h
  exact ⟨⟨⟨⟨⟨⟨⟨⟨⟨⟨h1, h4⟩, h6⟩, h12⟩, h14⟩, h11⟩, r1⟩, h15⟩, h16⟩, Or.inl h17⟩, by simpa using s5⟩

/-- an unknown service name is rejected -/
theorem C20_rejects_unknown_service (c : Cfg) (h : c.services ≠ .ok) : validate c = false := by
  cases hs : c.services <;> simp_all [validate]

/-- an SBI scheme other than http / https (or none) is rejected -/
theorem C20_rejects_bad_scheme (c : Cfg) (h : c.scheme = .other ∨ c.scheme = .absent) : validate c = false := by
  rcases h with h | h <;> simp [validate, sbiValid, h]

/-- a missing mandatory section is rejected -/
theorem C20_rejects_missing_section (c : Cfg)
    (h : c.info = false ∨ c.configuration = false ∨ c.logger = false ∨ c.sbi = false ∨ c.mongodb = false ∨
         c.rf = false ∨ c.abmf = false ∨ c.cgf = false ∨ c.rfTls = false ∨ c.abmfTls = false ∨
         c.serviceList = false) : validate c = false := by
  rcases h with h | h | h | h | h | h | h | h | h | h | h <;> simp [validate, rfValid, abmfValid, h]

/-- https needs the SBI TLS block -/
theorem C20_https_needs_tls (c : Cfg) (h : c.scheme = .https) (ht : c.sbiTls = false) : validate c = false := by
  simp [validate, sbiValid, h, ht]

/-- non-vacuity: the complete baseline validates (and therefore starts) -/
def baseline (s : Scheme) : Cfg :=
  ⟨true, true, true, true, true, true, true, true, true, true, true, true, true, true, true, true, true, true, true, true, s, .ok,
   .tcp, .tcp, false⟩
example : validate (baseline .http) = true ∧ validate (baseline .https) = true := by decide

/-- the protocol named in a Diameter section excuses nothing: without the section's tls block the configuration is
    rejected whatever the two protocols are (the servers and clients read the block unconditionally) -/
theorem C20_protocol_does_not_excuse_tls (c : Cfg) (p q : Proto) :
    validate { c with rfProto := p, abmfProto := q, rfTls := false } = false ∧
    validate { c with rfProto := p, abmfProto := q, abmfTls := false } = false := by
  constructor <;> simp [validate, rfValid, abmfValid]

/-- a Diameter section without `protocol` is rejected -/
theorem C20_rejects_missing_protocol (c : Cfg) (h : c.rfProto = .absent ∨ c.abmfProto = .absent) :
    validate c = false := by
  rcases h with h | h <;> simp [validate, rfValid, abmfValid, h]

/-- an enabled CGF finds its passive port range: the block is guaranteed by validation, enabled or not -/
theorem C20_cgf_port_range (c : Cfg) (h : validate c = true) : c.cgf = true ∧ c.cgfPortRange = true := by
  simp only [validate, Bool.and_eq_true] at h
  exact ⟨h.1.2, h.2⟩

/-- non-vacuity: other protocols and an enabled CGF validate and start when the blocks are there -/
example : validate { baseline .https with rfProto := .sctp, abmfProto := .other, cgfEnable := true } = true ∧
          startsOK { baseline .https with rfProto := .sctp, abmfProto := .other, cgfEnable := true } = true := by decide
/-- … and a start-up that reads a block validation does not guarantee is what `startsOK` excludes -/
example : startsOK { baseline .http with cgfEnable := true, cgfPortRange := false } = false ∧
          startsOK { baseline .http with rfProto := .sctp, rfTls := false } = false := by decide

/-! ### the tags as compiled (regenerated) -/

def tagOf (field : String) : Option String :=
  (Chf.Gen.validTags.find? (fun t => t.1 == field)).map (fun t => t.2.2.2)

/-- the tags `validate` models: mandatory sections `required`, both Diameter TLS blocks `required`,
    SBI TLS `optional` (made conditional on https by Sbi.validate) -/
theorem C20_tags_as_modelled :
    tagOf "Config.Info" = some "required" ∧ tagOf "Config.Configuration" = some "required" ∧
    tagOf "Config.Logger" = some "required" ∧ tagOf "Info.Version" = some "required,in(1.0.3)" ∧
    tagOf "Configuration.ChfName" = some "required, type(string)" ∧
    tagOf "Configuration.Sbi" = some "required" ∧ tagOf "Configuration.ServiceNameList" = some "required" ∧
    tagOf "Configuration.NrfUri" = some "required, url" ∧ tagOf "Configuration.Mongodb" = some "required" ∧
    tagOf "Configuration.RfDiameter" = some "required" ∧ tagOf "Configuration.AbmfDiameter" = some "required" ∧
    tagOf "Configuration.Cgf" = some "required" ∧ tagOf "Diameter.Tls" = some "required" ∧
    tagOf "Sbi.Tls" = some "optional" ∧ tagOf "Sbi.Scheme" = some "required,scheme" ∧
    tagOf "Sbi.RegisterIPv4" = some "required,host" ∧ tagOf "Sbi.BindingIPv4" = some "required,host" ∧
    tagOf "Sbi.Port" = some "required,port" ∧
    tagOf "Tls.Pem" = some "type(string),minstringlength(1),required" ∧
    tagOf "Tls.Key" = some "type(string),minstringlength(1),required" := by decide +kernel

def kindOf (field : String) : Option String :=
  (Chf.Gen.validTags.find? (fun t => t.1 == field)).map (fun t => t.2.1)

/-- the tags and kinds behind the value-dependent parts of the model: `protocol` is required and nothing else hangs on
    it; the CGF's passive port range is a struct *value* (reading its members cannot fail) whose two members are
    required, so the block is mandatory although tagged optional -/
theorem C20_tags_values :
    tagOf "Diameter.Protocol" = some "required" ∧
    tagOf "Diameter.HostIPv4" = some "required,host" ∧ tagOf "Diameter.Port" = some "required,port" ∧
    kindOf "Diameter.Tls" = some "ptr" ∧
    kindOf "Cgf.PassiveTransferPortRange" = some "struct" ∧
    tagOf "Cgf.PassiveTransferPortRange" = some "optional" ∧
    tagOf "<anonymous>.Start" = some "required,port" ∧ tagOf "<anonymous>.End" = some "required,port" ∧
    tagOf "Cgf.Enable" = some "type(bool)" ∧ tagOf "Cgf.Tls" = some "optional" := by decide +kernel

end Chf.Props.C20
