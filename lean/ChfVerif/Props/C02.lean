import ChfVerif.Lemmas.Convert
import ChfVerif.Lemmas.ChargingSids
import ChfVerif.Lemmas.ChargingRecords
import ChfVerif.Lemmas.ChargingSessions
import ChfVerif.Model.RecordBer
/-
  C02 — reported usage is recorded exactly once, in the right session's CDR; the opening timestamp
  is the TS 32.298 BCD form of the creation instant in every time zone.

  Part 1 (this file, proved): the timestamp encoder, for every civil time and every zone offset of
  whole minutes within ±14 h (positive, negative, not hour-aligned).
  Part 2 (proved): bookkeeping facts of the charging model — an accepted request appends its usage
  containers, unchanged and in order, at the end of the usage list of the record the session map
  designates; rejected requests and other subscribers' records are untouched; release/partial closure
  set the cause code.  The exactly-once-per-session oracle over whole histories is evaluated on the
  implementation's trace by the check (tracer = local sequence number of each container).
-/
namespace Chf.Convert
open Chf

/-- a civil time as Go produces it, with a zone offset of whole minutes within ±14 h -/
def Civil.WF (t : Civil) : Prop :=
  1 ≤ t.month ∧ t.month ≤ 12 ∧ 1 ≤ t.day ∧ t.day ≤ 31 ∧ t.hour < 24 ∧ t.minute < 60 ∧ t.second < 60 ∧
  -50400 ≤ t.tz ∧ t.tz ≤ 50400 ∧ t.tz % 60 = 0

theorem C02_timestamp (t : Civil) (h : t.WF) :
    readTimeStamp (timeStampToCdr t) =
      some ⟨t.year % 100, t.month, t.day, t.hour, t.minute, t.second, t.tz / 60⟩ := by
  obtain ⟨h1, h2, h3, h4, h5, h6, h7, h8, h9, h10⟩ := h
  unfold timeStampToCdr readTimeStamp
  have hy : ((t.year % 100 / 10 % 256) * 16 % 256) ||| (t.year % 10 % 256) = bcd (t.year % 100) := by
    unfold bcd
    have : t.year % 100 % 10 = t.year % 10 % 256 := by omega
    rw [this]
  simp only [hy]
  have haz : t.tz.natAbs ≤ 50400 := by omega
  rw [unbcd_bcd (show t.year % 100 < 100 by omega), unbcd_bcd (show t.month < 100 by omega),
    unbcd_bcd (show t.day < 100 by omega), unbcd_bcd (show t.hour < 100 by omega),
    unbcd_bcd (show t.minute < 100 by omega), unbcd_bcd (show t.second < 100 by omega),
    unbcd_bcd (show t.tz.natAbs / 3600 < 100 by omega), unbcd_bcd (show t.tz.natAbs % 3600 / 60 < 100 by omega)]
  by_cases hp : t.tz ≥ 0
  · simp only [hp, if_true]
    congr 2
    omega
  · simp only [hp, if_false, show ¬ ((45 : Nat) = 43) by decide, if_true]
    congr 2
    omega


end Chf.Convert

namespace Chf.Props.C02
open Chf Chf.Charging

/-- the timestamp theorem, under its property name -/
theorem C02_timestamp (t : Convert.Civil) (h : t.WF) :
    Convert.readTimeStamp (Convert.timeStampToCdr t) =
      some ⟨t.year % 100, t.month, t.day, t.hour, t.minute, t.second, t.tz / 60⟩ :=
  Chf.Convert.C02_timestamp t h

/-- conversion of reported usage to record entries keeps rating group, UPF id and every container
    (volumes, service specific units, local sequence number) in report order -/
theorem C02_conversion (us : List Usage) :
    (toRecUsage us).map (fun x => (x.rg, x.upf, x.cs)) = us.map (fun u => (u.rg, u.upf, u.cs)) := by
  simp [toRecUsage, List.map_map, Function.comp_def]

/-- appending to a record adds exactly the converted usage at the end and keeps every identity field -/
theorem C02_append_record (r : Record) (us : List Usage) :
    (appendUsage r us).usage = r.usage ++ toRecUsage us ∧ (appendUsage r us).sid = r.sid ∧
    (appendUsage r us).subData = r.subData ∧ (appendUsage r us).cid = r.cid ∧ (appendUsage r us).nf = r.nf ∧
    (appendUsage r us).lsn = r.lsn := ⟨rfl, rfl, rfl, rfl, rfl, rfl⟩

/-- a rejected request changes no record of anybody (corollary of C12) -/
theorem C02_rejected_untouched (guard : SplitGuard) (s : State) (op : Op)
    (h4 : (step guard s op).2.status = 400 ∨ (step guard s op).2.status = 404) (supi : Bytes) :
    findUe (step guard s op).1.ues supi = findUe s.ues supi := by
  have : (step guard s op).1 = s := by
    cases op with
    | create r =>
      simp only [step, create] at h4 ⊢
      split
      · rfl
      · split
        · rfl
        · rename_i hnf hp; simp only [hnf, hp, if_false] at h4; simp at h4
    | update sid r =>
      simp only [step, update] at h4 ⊢
      split
      · rfl
      · rename_i ue hu
        split
        · rfl
        · rename_i idx hl; simp only [hu, hl] at h4; simp at h4
    | release sid r =>
      simp only [step, release] at h4 ⊢
      split
      · rfl
      · rename_i ue hu
        split
        · rfl
        · rename_i idx hl; simp only [hu, hl] at h4; simp at h4
    | recharge info =>
      simp only [step, recharge] at h4 ⊢
      split
      · rename_i ueId rgStr hsp
        split
        · rfl
        · rename_i rg hp
          split
          · rfl
          · rename_i ue hu; simp only [hsp, hp, hu] at h4; simp at h4
      · rfl
    | credit a b c => simp [step] at h4
  rw [this]

/-- a request of one subscriber never touches the records (or anything else) of another subscriber -/
theorem C02_other_subscribers_untouched (guard : SplitGuard) (s : State) (op : Op) (supi : Bytes)
    (hne : ∀ sid r, (op = .update sid r ∨ op = .release sid r ∨ op = .create r) → r.supi ≠ supi)
    (hre : ∀ info ueId rgStr, op = .recharge info → splitUnderscore info = [ueId, rgStr] → ueId ≠ supi) :
    findUe (step guard s op).1.ues supi = findUe s.ues supi := by
  cases op with
  | create r =>
    have hs := hne [] r (Or.inr (Or.inr rfl))
    simp only [step]
    rcases create_state s r with h | ⟨ue', hues, _, hsupi, _⟩
    · rw [h]
    · rw [hues, findUe_putUe_other _ _ _ (by rw [hsupi]; exact fun e => hs e.symm)]
  | update sid r =>
    have hs := hne sid r (Or.inl rfl)
    simp only [step, update]
    cases hu : findUe s.ues r.supi with
    | none => rfl
    | some ue =>
      simp only
      cases hl : lookupSid ue.cdr sid with
      | none => rfl
      | some idx =>
        simp only
        exact findUe_putUe_other _ _ _ (by simp only; rw [findUe_supi hu]; exact fun e => hs e.symm)
  | release sid r =>
    have hs := hne sid r (Or.inr (Or.inl rfl))
    simp only [step, release]
    cases hu : findUe s.ues r.supi with
    | none => rfl
    | some ue =>
      simp only
      cases hl : lookupSid ue.cdr sid with
      | none => rfl
      | some idx =>
        simp only
        exact findUe_putUe_other _ _ _ (by simp only; rw [findUe_supi hu]; exact fun e => hs e.symm)
  | recharge info =>
    simp only [step, recharge]
    split
    · rename_i ueId rgStr hsp
      have hs := hre info ueId rgStr rfl hsp
      split
      · rfl
      · split
        · rfl
        · rename_i ue hu
          simp only
          exact findUe_putUe_other _ _ _ (by simp only; rw [findUe_supi hu]; exact fun e => hs e.symm)
    · rfl
  | credit a b c =>
    simp only [step, creditAcct]
    split
    · split <;> rfl
    · rfl

/-- cause for record closing: a release closes the designated record with cause 0 (normal release) -/
theorem C02_release_cause (guard : SplitGuard) (s : State) (sid : Bytes) (r : Req) (ue : Ue) (idx : Nat)
    (h : findUe s.ues r.supi = some ue) (hs : lookupSid ue.cdr sid = some idx) (hi : idx < ue.records.length) :
    ∃ ue', findUe (step guard s (.release sid r)).1.ues r.supi = some ue' ∧
      (ue'.records.getD idx default).cause = 0 ∧
      (ue'.records.getD idx default).usage = (ue.records.getD idx default).usage ++ toRecUsage r.usages := by
  have hsupi := findUe_supi h
  have key : ∃ ue' : Ue, (step guard s (.release sid r)).1.ues = putUe s.ues ue' ∧ ue'.supi = ue.supi ∧
      (ue'.records.getD idx default).cause = 0 ∧
      (ue'.records.getD idx default).usage = (ue.records.getD idx default).usage ++ toRecUsage r.usages := by
    simp only [step, release, h, hs]
    refine ⟨_, rfl, rfl, ?_, ?_⟩
    · simp [setRecord, List.getD_eq_getElem?_getD, hi]
    · simp [setRecord, List.getD_eq_getElem?_getD, hi, appendUsage]
  obtain ⟨ue', h1, h2, h3, h4⟩ := key
  exact ⟨ue', by rw [h1, ← hsupi, ← h2]; exact findUe_putUe_same _ _, h3, h4⟩


/-- C02 (exactly once, every history): whatever the history — any number of subscribers and sessions,
    interleaved creates, updates, releases and recharges, rejected requests, record splits decided by any size
    guard — the usage recorded in a subscriber's records is, as a multiset, exactly the usage its accepted
    requests reported: nothing is lost, nothing is recorded twice, nothing of another subscriber creeps in. -/
theorem C02_exactly_once (guard : SplitGuard) (supi : Bytes) (ops : List Op)
    (accts : Abmf.Store) (tariffs : List Rating.Tariff) :
    List.Perm (usageOf (run guard { accts := accts, tariffs := tariffs } ops) supi)
      (contributedRun guard supi { accts := accts, tariffs := tariffs } ops) := by
  have h := (usage_run guard supi ops { accts := accts, tariffs := tariffs } (allIdx_init accts tariffs)).1
  simpa [usageOf, findUe] using h

/-- C02 (per session, in report order — the full statement): whatever the history, the usage entries held by the records
    that carry session reference `sid` of subscriber `supi` — read in record order and, inside a record, in list order —
    are exactly, and in exactly this order, the usage entries of the accepted create that returned `sid` followed by those
    of every accepted update and release addressed to `sid`, in the order the requests were made: nothing is lost,
    duplicated, reordered, or recorded under another session's reference or another subscriber, across any number of
    record splits decided by any size guard. (`sid ≠ ""`: one-time events open no session.) -/
theorem C02_session_in_order (guard : SplitGuard) (supi sid : Bytes) (hsid : sid ≠ []) (ops : List Op)
    (accts : Abmf.Store) (tariffs : List Rating.Tariff) :
    sessUsage (run guard { accts := accts, tariffs := tariffs } ops) supi sid =
      contribSessRun guard supi sid { accts := accts, tariffs := tariffs } ops := by
  have h := (sess_run guard supi sid hsid ops _ (sessInv_init accts tariffs)).1
  simpa [sessUsage, findUe] using h

/-- the bookkeeping invariant behind it, for every reachable state: the session map has no duplicate keys, every live
    reference designates the LAST record carrying it, every reference found in a record was issued with a smaller
    sequence number than the counter -/
theorem C02_session_invariant (guard : SplitGuard) (ops : List Op) (accts : Abmf.Store) (tariffs : List Rating.Tariff) :
    SessInv (run guard { accts := accts, tariffs := tariffs } ops) :=
  (sess_run guard [] [0] (by decide) ops _ (sessInv_init accts tariffs)).2

/-- non-vacuity: two interleaved sessions of one subscriber, a new record started at EVERY update (guard always true),
    a rejected update in between: each session's contribution is its own reports, in order -/
example :
    let supiX : Bytes := [105, 109, 115, 105, 45, 49]
    let u : Int → Usage := fun n => { rg := 1, req := none, upf := [117], cs := [⟨2, n, 0, n, 0, n⟩] }
    let rq : Bytes → List Usage → Req := fun nf us =>
      { supi := supiX, nf := some nf, cid := 1, seq := 0, uri := false, one := false, trigs := [], usages := us }
    let a := sessionId supiX [97] 0
    let b := sessionId supiX [98] 1
    let ops : List Op := [.create (rq [97] [u 1]), .create (rq [98] []), .update a (rq [97] [u 2]), .update b (rq [98] [u 3]),
      .update [1, 2] (rq [97] [u 9]), .release a (rq [97] [u 4, u 5])]
    contribSessRun (fun _ _ => true) supiX a {} ops = toRecUsage [u 1, u 2, u 4, u 5] ∧
    contribSessRun (fun _ _ => true) supiX b {} ops = toRecUsage [u 3] := by decide

/-- … and every session reference keeps designating an existing record -/
theorem C02_references_valid (guard : SplitGuard) (ops : List Op) (accts : Abmf.Store) (tariffs : List Rating.Tariff) :
    AllIdxOK (run guard { accts := accts, tariffs := tariffs } ops) :=
  (usage_run guard [] ops { accts := accts, tariffs := tariffs } (allIdx_init accts tariffs)).2

end Chf.Props.C02

namespace Chf.Props.C02
open Chf Chf.RecordBer

/-- a decimal digit character -/
def isDigit (c : Nat) : Prop := 48 ≤ c ∧ c ≤ 57

/-- C02 (consumer identification, PLMN identifier): for an MCC of three digits and an MNC of two digits the record
    holds the TS 23.003 / TS 32.298 PLMN-Id octets: MCC digit 2 | MCC digit 1, filler F | MCC digit 3, MNC digit 2 | MNC digit 1 -/
theorem C02_plmn2 (a b c d e : Nat) (ha : isDigit a) (hb : isDigit b) (hc : isDigit c) (hd : isDigit d) (he : isDigit e) :
    plmnIdToCdr [a, b, c] [d, e] = [(b - 48) * 16 + (a - 48), 15 * 16 + (c - 48), (e - 48) * 16 + (d - 48)] := by
  unfold isDigit at *
  simp only [plmnIdToCdr, hexPair, hexNibble]
  simp [ha, hb, hc, hd, he]

/-- … and for an MNC of three digits: MCC digit 2 | MCC digit 1, MNC digit 1 | MCC digit 3, MNC digit 3 | MNC digit 2 -/
theorem C02_plmn3 (a b c d e f : Nat) (ha : isDigit a) (hb : isDigit b) (hc : isDigit c) (hd : isDigit d) (he : isDigit e)
    (hf : isDigit f) :
    plmnIdToCdr [a, b, c] [d, e, f] = [(b - 48) * 16 + (a - 48), (d - 48) * 16 + (c - 48), (f - 48) * 16 + (e - 48)] := by
  unfold isDigit at *
  simp only [plmnIdToCdr, hexPair, hexNibble]
  simp [ha, hb, hc, hd, he, hf]

/-- every node functionality OpenCDR knows is recorded with its TS 32.298 value, any other name as 0 -/
theorem C02_functionality :
    functionalityCode (asciiBytes "SMF") = 1 ∧ functionalityCode (asciiBytes "AMF") = 2 ∧ functionalityCode (asciiBytes "SMSF") = 3 ∧
    functionalityCode (asciiBytes "SGW") = 4 ∧ functionalityCode (asciiBytes "I_SMF") = 5 ∧ functionalityCode (asciiBytes "ePDG") = 6 ∧
    functionalityCode (asciiBytes "CEF") = 7 ∧ functionalityCode (asciiBytes "NEF") = 8 ∧ functionalityCode (asciiBytes "PGW_C_SMF") = 9 ∧
    functionalityCode (asciiBytes "MnS_Producer") = 10 := by decide

/-- the consumer identification reaches the record unchanged: what OpenCDR puts into the record environment is the
    request's own strings (absent exactly when empty) -/
theorem C02_consumer_identification (nfId ot : Bytes) (c : Consumer) :
    (openEnv nfId ot c).v4 = nonEmpty c.v4 ∧ (openEnv nfId ot c).v6 = nonEmpty c.v6 ∧ (openEnv nfId ot c).fqdn = nonEmpty c.fqdn ∧
    (openEnv nfId ot c).svcSpec = nonEmpty c.svcSpec ∧ (openEnv nfId ot c).functionality = functionalityCode c.functionality :=
  ⟨rfl, rfl, rfl, rfl, rfl⟩

end Chf.Props.C02
