import ChfVerif.Model.Router
import ChfVerif.Gen.Routes
/-
  C13 — with OAuth2 required, every route of every enabled service rejects unauthenticated requests,
  and no route exists outside the protected groups, for any list of enabled services.

  `C13` is about the router model for an arbitrary (unbounded) service list; the facts that tie it to
  the code are regenerated on every run into Gen/Routes.lean and discharged by `decide`:
  the syntactic shape of each `case` of newRouter, and the route tables gin actually built for all 16
  ordered lists of distinct service names (with the handler-chain length gin reported).
-/
namespace Chf.Props.C13
open Chf.Router

/-- every route of the router carries the auth middleware in front of its handler -/
theorem protected_chain (facts : List CaseFact) (h : ∀ f ∈ facts, f.useBefore = true ∧ f.authInUse = true)
    (routesOf : String → List (String × String)) (svcs : List String) :
    ∀ r ∈ newRouter facts routesOf svcs, r.chain = [.auth, .handler] := by
  induction svcs with
  | nil => intro r hr; simp [newRouter] at hr
  | cons name rest ih =>
    intro r hr
    simp only [newRouter, List.mem_append] at hr
    rcases hr with hr | hr
    · cases hc : findCase facts name with
      | none => simp [hc] at hr
      | some f =>
        simp only [hc, caseRoutes, List.mem_map] at hr
        obtain ⟨mp, _, hmp⟩ := hr
        have hf : f ∈ facts := List.mem_of_find?_eq_some hc
        obtain ⟨h1, h2⟩ := h f hf
        rw [← hmp]; simp [h1, h2]
    · exact ih r hr

/-- C13: for any list of enabled services (any length, order, repetitions, unknown names) and any route
    of the resulting router, a request whose token does not verify is answered 401 and the API function
    does not run. -/
theorem C13 (facts : List CaseFact) (h : ∀ f ∈ facts, f.useBefore = true ∧ f.authInUse = true)
    (routesOf : String → List (String × String)) (svcs : List String) :
    ∀ r ∈ newRouter facts routesOf svcs, serveChain false r.chain = ⟨401, false⟩ := by
  intro r hr
  rw [protected_chain facts h routesOf svcs r hr]
  rfl

/-- … while an authorised request reaches the handler (the middleware is not a blanket refusal) -/
theorem C13_authorised_passes (facts : List CaseFact) (h : ∀ f ∈ facts, f.useBefore = true ∧ f.authInUse = true)
    (routesOf : String → List (String × String)) (svcs : List String) :
    ∀ r ∈ newRouter facts routesOf svcs, serveChain true r.chain = ⟨200, true⟩ := by
  intro r hr
  rw [protected_chain facts h routesOf svcs r hr]
  rfl

/-! ### the regenerated facts -/

/-- every `case` of newRouter installs the authorization middleware before it registers its routes -/
theorem C13_cases_protected : ∀ f ∈ Chf.Gen.caseFacts, f.useBefore = true ∧ f.authInUse = true := by decide

/-- newRouter registers nothing directly on the engine -/
theorem C13_no_bare_route : Chf.Gen.bareRegistrations = 0 := by decide

/-- all three service names have a case -/
theorem C13_all_services_have_case :
    ∀ n ∈ ["nchf-convergedcharging", "nchf-offlineonlycharging", "nchf-spendinglimitcontrol"],
      (findCase Chf.Gen.caseFacts n).isSome = true := by decide

def routeProtected (enabled : List String) (r : RouteInfo) : Bool :=
  r.chain == Chf.Gen.baseChain + 2 &&
  Chf.Gen.caseFacts.any fun f => enabled.contains f.name && f.pfx == r.group

/-- for each of the 16 ordered lists of distinct service names, every route gin actually registered lies
    under the prefix of an enabled, protected group and has exactly one handler (the auth middleware) between
    the engine's global middleware and the API function -/
theorem C13_runtime_routes_protected :
    ∀ e ∈ Chf.Gen.runtimeRoutes, ∀ r ∈ e.2, routeProtected e.1 r = true := by decide

/-- the instantiated statement for the code at hand -/
theorem C13_here (routesOf : String → List (String × String)) (svcs : List String) :
    ∀ r ∈ newRouter Chf.Gen.caseFacts routesOf svcs, serveChain false r.chain = ⟨401, false⟩ :=
  C13 Chf.Gen.caseFacts C13_cases_protected routesOf svcs

end Chf.Props.C13
