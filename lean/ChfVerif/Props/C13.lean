import ChfVerif.Model.Router
import ChfVerif.Gen.Routes
/-
  C13 — with OAuth2 required, every route of every enabled service rejects unauthenticated requests,
  and no route exists outside the protected groups, for any list of enabled services.

  `C13` is about the router model for an arbitrary (unbounded) service list; the facts that tie it to
  the code are regenerated on every run into Gen/Routes.lean and discharged by `decide`:
  the syntactic shape of each `case` of newRouter, and the route tables gin actually built for all 16
  ordered lists of distinct service names (with the handler-chain length gin reported).
-/
namespace Chf.Props.C13
open Chf.Router

/-- every route of the router carries the auth middleware in front of its handler -/
theorem protected_chain (facts : List CaseFact) (h : ∀ f ∈ facts, f.useBefore = true ∧ f.authInUse = true)
    (routesOf : String → List (String × String)) (svcs : List String) :
    ∀ r ∈ newRouter facts routesOf svcs, r.chain = [.auth, .handler] := by
  induction svcs with
  | nil => intro r hr; simp [newRouter] at hr
  | cons name rest ih =>
    intro r hr
    simp only [newRouter, List.mem_append] at hr
    rcases hr with hr | hr
    · cases hc : findCase facts name with
      | none => simp [hc] at hr
      | some f =>
        simp only [hc, caseRoutes, List.mem_map] at hr
        obtain ⟨mp, _, hmp⟩ := hr
        have hf : f ∈ facts := List.mem_of_find?_eq_some hc
        obtain ⟨h1, h2⟩ := h f hf
        rw [← hmp]; simp [h1, h2]
    · exact ih r hr

/-- C13: for any list of enabled services (any length, order, repetitions, unknown names) and any route
    of the resulting router, a request whose token does not verify is answered 401 and the API function
    does not run. -/
theorem C13 (facts : List CaseFact) (h : ∀ f ∈ facts, f.useBefore = true ∧ f.authInUse = true)
    (routesOf : String → List (String × String)) (svcs : List String) :
    ∀ r ∈ newRouter facts routesOf svcs, serveChain false r.chain = ⟨401, false⟩ := by
  intro r hr
  rw [protected_chain facts h routesOf svcs r hr]
  rfl

/-- … while an authorised request reaches the handler (the middleware is not a blanket refusal) -/
theorem C13_authorised_passes (facts : List CaseFact) (h : ∀ f ∈ facts, f.useBefore = true ∧ f.authInUse = true)
    (routesOf : String → List (String × String)) (svcs : List String) :
    ∀ r ∈ newRouter facts routesOf svcs, serveChain true r.chain = ⟨200, true⟩ := by
  intro r hr
  rw [protected_chain facts h routesOf svcs r hr]
  rfl

/-! ### the regenerated facts -/

/-- every `case` of newRouter installs the authorization middleware before it registers its routes -/
theorem C13_cases_protected : ∀ f ∈ Chf.Gen.caseFacts, f.useBefore = true ∧ f.authInUse = true := by decide

/-- newRouter registers nothing directly on the engine -/
theorem C13_no_bare_route : Chf.Gen.bareRegistrations = 0 := by decide

/-- all three service names have a case -/
theorem C13_all_services_have_case :
    ∀ n ∈ ["nchf-convergedcharging", "nchf-offlineonlycharging", "nchf-spendinglimitcontrol"],
      (findCase Chf.Gen.caseFacts n).isSome = true := by decide

def routeProtected (enabled : List String) (r : RouteInfo) : Bool :=
  r.chain == Chf.Gen.baseChain + 2 &&
  Chf.Gen.caseFacts.any fun f => enabled.contains f.name && f.pfx == r.group

/-- for each of the 16 ordered lists of distinct service names, every route gin actually registered lies
    under the prefix of an enabled, protected group and has exactly one handler (the auth middleware) between
    the engine's global middleware and the API function -/
theorem C13_runtime_routes_protected :
    ∀ e ∈ Chf.Gen.runtimeRoutes, ∀ r ∈ e.2, routeProtected e.1 r = true := by decide

/-- the instantiated statement for the code at hand -/
theorem C13_here (routesOf : String → List (String × String)) (svcs : List String) :
    ∀ r ∈ newRouter Chf.Gen.caseFacts routesOf svcs, serveChain false r.chain = ⟨401, false⟩ :=
  C13 Chf.Gen.caseFacts C13_cases_protected routesOf svcs

/-! ### the middleware and the decision, path by path (regenerated: `checkPaths`, `authPaths`) -/

/-- every control-flow path of `RouterAuthorizationCheck.Check` that a request without a verifiable token can
    take writes 401 and aborts the chain; a path that returns early without `Abort` (or that calls `Next`
    first, or that contains a statement the extractor cannot read) breaks this -/
theorem C13_check_paths_safe : ∀ p ∈ Chf.Gen.checkPaths, pathSafe p = true := by decide

/-- `CHFContext.AuthorizationCheck` consults nothing but `OAuth2Required` and `oauth.VerifyOAuth` applied to
    the request's own header: no cache, no clock, no earlier request -/
theorem C13_auth_paths_pure : ∀ p ∈ Chf.Gen.authPaths, p.pure = true := by decide

/-- … and it decides every request (some path applies whether or not OAuth2 is required) -/
theorem C13_auth_paths_total :
    ∀ required ∈ [true, false], Chf.Gen.authPaths.any (·.taken (fun _ => false) required) = true := by decide

/-- a rejecting path makes gin answer 401 without running the API function -/
theorem C13_mw_rejects (p : List Ev) (hs : pathSafe p = true) (hf : feasible false p = true) :
    serveVia p [.auth, .handler] = ⟨401, false⟩ := by
  have hr : rejects p = true := by
    simp only [pathSafe, hf, Bool.not_true, Bool.false_or] at hs
    exact hs
  simp only [rejects, Bool.and_eq_true, beq_iff_eq, Bool.not_eq_true'] at hr
  obtain ⟨⟨⟨h1, h2⟩, h3⟩, _⟩ := hr
  simp [serveVia, h1, h2, h3]

theorem all_congr_mem {α : Type} {l : List α} {f g : α → Bool} (h : ∀ x ∈ l, f x = g x) : l.all f = l.all g := by
  induction l with
  | nil => rfl
  | cons a r ih =>
    simp only [List.all_cons]
    rw [h a (List.mem_cons_self ..), ih (fun x hx => h x (List.mem_cons_of_mem _ hx))]

theorem pure_no_unread (p : APath) (hp : p.pure = true) :
    p.evs.any AEv.isUnread = false := by
  simp only [APath.pure, Bool.and_eq_true, List.all_eq_true] at hp
  rw [List.any_eq_false]
  intro e he
  have := hp.1 e he
  cases e <;> simp_all [AEv.isUnread]

theorem pure_taken_indep (p : APath) (hp : p.pure = true) (a₁ a₂ : Adversary) (required : Bool) :
    p.taken a₁ required = p.taken a₂ required := by
  simp only [APath.pure, Bool.and_eq_true, List.all_eq_true] at hp
  have h := hp.1
  simp only [APath.taken]
  apply all_congr_mem
  intro e he
  have := h e he
  cases e <;> simp_all

theorem pure_accepts_indep (p : APath) (hp : p.pure = true) (a₁ a₂ : Adversary) (verifies : Bool) :
    p.accepts a₁ verifies = p.accepts a₂ verifies := by
  have hno := pure_no_unread p hp
  simp only [APath.pure, Bool.and_eq_true] at hp
  obtain ⟨_, hret⟩ := hp
  cases hr : p.ret with
  | nil => simp only [APath.accepts, hr]
  | verify => simp only [APath.accepts, hr]
  | errVar =>
    simp only [hr] at hret
    simp only [APath.accepts, hr]
    rw [hno, hret]
    rfl
  | other s => simp [hr] at hret

/-- **Statelessness.**  When every path of the decision function is pure, the decision for a request is a
    function of (OAuth2Required, does the request's own header verify) alone: two adversaries — two histories
    of earlier requests, two clock readings, two cache contents — cannot make it differ. -/
theorem C13_stateless (paths : List APath) (h : ∀ p ∈ paths, p.pure = true) (a₁ a₂ : Adversary)
    (required verifies : Bool) :
    decision paths a₁ required verifies = decision paths a₂ required verifies := by
  induction paths with
  | nil => rfl
  | cons p r ih =>
    have hp := h p (List.mem_cons_self ..)
    have ihr := ih (fun q hq => h q (List.mem_cons_of_mem _ hq))
    simp only [decision, List.find?_cons] at ihr ⊢
    rw [pure_taken_indep p hp a₁ a₂ required]
    cases p.taken a₂ required with
    | true => simp [pure_accepts_indep p hp a₁ a₂ verifies]
    | false => exact ihr

/-- the same, spelled out over histories: whatever was presented (and accepted) before, the decision on the
    next request is the decision on that request presented first -/
theorem C13_history_independent (paths : List APath) (h : ∀ p ∈ paths, p.pure = true)
    (world : List Bool → Adversary) (hist : List Bool) (required verifies : Bool) :
    decision paths (world hist) required verifies = decision paths (world []) required verifies :=
  C13_stateless paths h _ _ required verifies

/-- with OAuth2 required, a header that does not verify is never accepted, under any adversary -/
theorem C13_unverified_rejected (paths : List APath) (h : ∀ p ∈ paths, p.pure = true) (adv : Adversary) :
    decision paths adv true false ≠ some true := by
  intro hd
  simp only [decision, Option.map_eq_some_iff] at hd
  obtain ⟨p, hfind, hacc⟩ := hd
  have hmem : p ∈ paths := List.mem_of_find?_eq_some hfind
  have htaken : p.taken adv true = true := by
    have := List.find?_some hfind
    simpa using this
  have hp := h p hmem
  simp only [APath.pure, Bool.and_eq_true, List.all_eq_true] at hp
  obtain ⟨hev, hret⟩ := hp
  simp only [APath.accepts] at hacc
  cases hr : p.ret with
  | nil =>
    simp only [hr, List.contains_iff_mem] at hret
    simp only [APath.taken, List.all_eq_true] at htaken
    have := htaken _ hret
    simp at this
  | verify => simp [hr] at hacc
  | errVar =>
    simp only [hr] at hret hacc
    rw [pure_no_unread p (h p hmem), hret] at hacc
    simp at hacc
  | other s => simp [hr] at hret

/-- **C13, per request.**  For the code at hand: any list of enabled services, any route of the router, any
    history / clock / request-context state (the adversaries of both functions): a request whose bearer token
    does not verify is answered 401 and the API function does not run — on whichever path of the middleware the
    request travels. -/
theorem C13_request (routesOf : String → List (String × String)) (svcs : List String)
    (adv : Adversary) (ok : Bool) (hd : decision Chf.Gen.authPaths adv true false = some ok) :
    ∀ r ∈ newRouter Chf.Gen.caseFacts routesOf svcs, ∀ p ∈ Chf.Gen.checkPaths, feasible ok p = true →
      serveVia p r.chain = ⟨401, false⟩ := by
  intro r hr p hp hf
  have hok : ok = false := by
    cases ok with
    | false => rfl
    | true => exact absurd hd (C13_unverified_rejected _ C13_auth_paths_pure adv)
  subst hok
  rw [protected_chain _ C13_cases_protected routesOf svcs r hr]
  exact C13_mw_rejects p (C13_check_paths_safe p hp) hf

/-! ### both hypotheses are needed -/

/-- a decision function with a remembered-verification shortcut is not pure, and some history makes it accept a
    header that does not verify -/
theorem C13_cache_witness :
    let cached : List APath := [⟨[.notRequired true], .nil⟩,
                                ⟨[.notRequired false, .cond "fresh entry for this key" true], .nil⟩,
                                ⟨[.notRequired false, .cond "fresh entry for this key" false], .verify⟩]
    (cached.all (·.pure) = false) ∧ decision cached (fun _ => true) true false = some true := by decide

/-- a middleware path that returns before the decision without aborting lets the API function run -/
theorem C13_early_return_witness :
    let p : List Ev := [.cond "c.Request.Context().Err() != nil" true]
    pathSafe p = false ∧ feasible false p = true ∧ serveVia p [.auth, .handler] = ⟨200, true⟩ := by decide

/-- … and so does one that answers 401 but forgets `Abort` -/
theorem C13_no_abort_witness :
    let p : List Ev := [.authCall, .errNonNil true, .respond 401]
    pathSafe p = false ∧ serveVia p [.auth, .handler] = ⟨200, true⟩ := by decide

end Chf.Props.C13
