import ChfVerif.Model.Rating
import ChfVerif.Spec.RatingSpec
import ChfVerif.Lemmas.Abmf
/-
  C08 — the rating server prices exactly and agrees with the CHF on the unit cost.

  `cost` below is the unit cost the server derives from the stored string
  (`serverUnitCost (buildTariff s)`), whatever that string is.
-/
namespace Chf.Props.C08
open Chf Chf.Rating

theorem handle_known {st : List Tariff} {c : SUR} {s : Bytes}
    (hf : findCost st (subscriberId c) c.rg = some s) :
    handleSUR st c = .answer c.sess (buildTariff s).1 (buildTariff s).2
      (rate (serverUnitCost (buildTariff s)) c).1 (rate (serverUnitCost (buildTariff s)) c).2 := by
  unfold handleSUR; rw [hf]

/-- Every request for a known subscriber and rating group is answered, for every stored tariff text:
    the model has no crashing or silent outcome (the real server is tied to it by the `rf` stream). -/
theorem C08_answers {st : List Tariff} {c : SUR} {s : Bytes}
    (hf : findCost st (subscriberId c) c.rg = some s) : handleSUR st c ≠ .noAnswer := by
  rw [handle_known hf]; simp

/-- the answer echoes the Session-Id -/
theorem C08_echo {st : List Tariff} {c : SUR} {s : Bytes}
    (hf : findCost st (subscriberId c) c.rg = some s) :
    ∃ d e a p, handleSUR st c = .answer c.sess d e a p := by
  rw [handle_known hf]; exact ⟨_, _, _, _, rfl⟩

/-- Debit mode: price = consumed units × unit cost (whenever the exact price fits the Unsigned32 AVP),
    allowed units = 0. -/
theorem C08_debit (cost : Nat) (c : SUR) (hs : c.reqSub = 2) (hfit : c.consumed * cost < 4294967296) :
    rate cost c = (0, c.consumed * cost) := by
  unfold rate
  simp [hs, Nat.mod_eq_of_lt hfit]

/-- Reserve mode with a positive unit cost: allowed = ⌊quota / cost⌋, price = allowed × cost ≤ quota. -/
theorem C08_reserve (cost : Nat) (c : SUR) (hs : c.reqSub = 1) (hc : 0 < cost) (hq : c.quota < 4294967296) :
    rate cost c = (c.quota / cost, (c.quota / cost) * cost) ∧ (c.quota / cost) * cost ≤ c.quota := by
  have hle : (c.quota / cost) * cost ≤ c.quota := Nat.div_mul_le_self c.quota cost
  refine ⟨?_, hle⟩
  unfold rate
  have h0 : cost ≠ 0 := by omega
  have hlt : (c.quota / cost) * cost < 4294967296 := by omega
  simp [hs, h0, Nat.mod_eq_of_lt hlt]

/-- … and the remainder left unpriced is smaller than one unit -/
theorem C08_reserve_tight (cost : Nat) (c : SUR) (hc : 0 < cost) :
    c.quota < (c.quota / cost + 1) * cost := by
  have := Nat.div_add_mod c.quota cost
  have hm := Nat.mod_lt c.quota hc
  rw [Nat.add_mul, Nat.one_mul, Nat.mul_comm]
  omega

/-- Reserve mode with a unit cost of 0 (zero or unparsable stored text): nothing allowed, price 0. -/
theorem C08_reserve_zero_cost (c : SUR) (hs : c.reqSub = 1) : rate 0 c = (0, 0) := by
  unfold rate; simp [hs]

/-- Other request sub-types (AoC, release, unknown) are answered with 0 / 0. -/
theorem C08_other (cost : Nat) (c : SUR) (h1 : c.reqSub ≠ 1) (h2 : c.reqSub ≠ 2) : rate cost c = (0, 0) := by
  unfold rate; simp [h1, h2]

/-- The tariff in the answer decodes at the CHF (`getUnitCost`) to the unit cost the server applied —
    for every stored string. -/
theorem C08_agree (s : Bytes) :
    chfUnitCost (buildTariff s).1 (buildTariff s).2 = serverUnitCost (buildTariff s) := rfl

/-- For a stored plain decimal integer below 2^32 the unit cost is that integer. -/
theorem C08_integer_cost (s : Bytes) (n : Nat) (hd : dotPos s = none)
    (hp : Chf.Abmf.parseInt64 s = some (n : Int)) (hn : n < 4294967296) :
    serverUnitCost (buildTariff s) = n := by
  unfold serverUnitCost buildTariff
  simp only [hd, hp, Option.getD_some]
  have h1 : u32 (n : Int) = n := by
    unfold u32
    have : (n : Int) % 4294967296 = (n : Int) := Int.emod_eq_of_lt (by omega) (by omega)
    rw [this]; simp
  have h2 : pow10u32 0 = 1 := by decide
  rw [h1, h2, Nat.mul_one, Nat.mod_eq_of_lt hn]

/-! ### Non-vacuity / worked values -/
example : buildTariff [50] = (2, 0) := by decide                     -- "2"
example : serverUnitCost (buildTariff [50]) = 2 := by decide
example : buildTariff [49, 46, 53] = (15, 1) := by decide            -- "1.5" ↦ digits 15, exponent 1
example : serverUnitCost (buildTariff [48]) = 0 := by decide         -- "0"
example : serverUnitCost (buildTariff [97, 98, 99]) = 0 := by decide -- "abc"
example : rate 3 { sess := [], subType := 1, subData := [], rg := 1, reqSub := 1, consumed := 0, quota := 100 }
    = (33, 99) := by decide

end Chf.Props.C08

namespace Chf.Props.C08
open Chf Chf.Rating

theorem dotPos_none_of_plain (s : Bytes) (h : s.all Chf.Abmf.isDigit = true) : dotPos s = none := by
  induction s with
  | nil => rfl
  | cons b r ih =>
    simp only [List.all_cons, Bool.and_eq_true] at h
    unfold dotPos
    have hb : b ≠ 46 := by
      intro hb; subst hb; simp [Chf.Abmf.isDigit] at h
    simp [hb, ih h.2]

/-- The model satisfies the exchange predicate the check evaluates on implementation traces. -/
theorem C08_model_holds (st : List Tariff) (c : SUR) :
    holds (findCost st (subscriberId c) c.rg) c (handleSUR st c) = true := by
  unfold holds
  cases hf : findCost st (subscriberId c) c.rg with
  | none => simp [handleSUR, hf]
  | some s =>
    rw [handle_known hf]
    simp only [beq_self_eq_true, Bool.true_and]
    rw [C08_agree]
    rw [Bool.and_eq_true]
    constructor
    · cases hp : Chf.Abmf.parseInt64 s with
      | none => rfl
      | some n =>
        simp only
        by_cases hpl : (isPlainNat s && decide (n < 4294967296)) = true
        · simp only [hpl, if_true, decide_eq_true_eq]
          simp only [Bool.and_eq_true, decide_eq_true_eq, isPlainNat] at hpl
          obtain ⟨⟨_, hall⟩, hlt⟩ := hpl
          have hr := Chf.Abmf.parseInt64_inRange hp
          have hn0 : 0 ≤ n := by
            unfold Chf.Abmf.parseInt64 at hp
            split at hp
            · rename_i r; simp [Chf.Abmf.isDigit] at hall
            · rename_i r; simp [Chf.Abmf.isDigit] at hall
            · split at hp
              · split at hp
                · injection hp with hp; omega
                · cases hp
              · cases hp
          have hnat : ((n.toNat : Nat) : Int) = n := Int.toNat_of_nonneg hn0
          have := C08_integer_cost s n.toNat (dotPos_none_of_plain s hall) (by rw [hnat]; exact hp) (by omega)
          rw [this, hnat]
        · simp [hpl]
    · by_cases h2 : c.reqSub = 2
      · simp only [h2, if_true]
        by_cases hfit : c.consumed * serverUnitCost (buildTariff s) < 4294967296
        · simp [hfit, C08_debit _ c h2 hfit]
        · simp [hfit]
      · by_cases h1 : c.reqSub = 1
        · simp only [h1, if_true, show (1 : Nat) ≠ 2 by decide, if_false]
          by_cases hq : c.quota < 4294967296
          · simp only [hq, if_true]
            by_cases hc0 : serverUnitCost (buildTariff s) = 0
            · simp [hc0, C08_reserve_zero_cost c h1]
            · have hpos : 0 < serverUnitCost (buildTariff s) := by omega
              obtain ⟨e, hle⟩ := C08_reserve _ c h1 hpos hq
              simp [hc0, e, hle]
          · simp [hq]
        · simp [h1, h2]

/-- the unit cost the CHF decodes is the exact value of the tariff modulo 2^32, for every non-negative Value-Digits
    (up to the whole int64 range) and every Exponent up to 18 — not an approximation of it: a decoding that forms the
    product in floating point agrees below 2^53 only -/
theorem C08_unit_cost_exact_mod (d : Int) (e : Nat) (hd : 0 ≤ d) (he : e ≤ 18) :
    Rating.chfUnitCost d (e : Int) = (d.toNat * 10 ^ e) % 4294967296 := by
  obtain ⟨n, rfl⟩ := Int.eq_ofNat_of_zero_le hd
  unfold Rating.chfUnitCost Rating.u32 Rating.pow10u32
  have h1 : ¬ ((e : Int) < 0) := by omega
  have h2 : (e : Int) ≤ 18 := by omega
  simp only [h1, h2, if_false, if_true, Int.toNat_natCast]
  have h3 : ((n : Int) % 4294967296).toNat = n % 4294967296 := by omega
  rw [h3, ← Nat.mul_mod]

end Chf.Props.C08
