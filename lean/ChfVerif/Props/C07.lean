import ChfVerif.Lemmas.Abmf
import ChfVerif.Spec.AbmfSpec
import ChfVerif.Gen.AbmfServer
/-
  C07 — account-balance server arithmetic.

  For a known subscriber and rating group (an account whose stored quota parses):
  * reservation (DIRECT_DEBITING, INITIAL/UPDATE): grant = min(requested, balance), the balance
    drops by exactly the grant and stays ≥ 0, final-unit indication iff requested > balance;
    an overdrawn (negative) balance grants 0 and is left unchanged;
  * refund raises, termination debit lowers the balance by exactly the stated amount;
  * every answer echoes Session-Id, request type and request number;
  * unknown subscriber / rating group / unparsable quota: no answer, nothing changes;
  * no request touches another account.
  Amounts range over 0 .. 2^63-1 as in the property; the "no int64 overflow" side
  conditions of refund/termination are explicit.
-/
namespace Chf.Props.C07
open Chf Chf.Abmf

theorem handle_known {st : Store} {c : CCR} {q : Quota} {quota : Int}
    (hf : find st (subscriberId c) c.rg = some q) (hp : q.parse = some quota) :
    handleCCR st c =
      (put st (subscriberId c) c.rg (.num (effect quota c).1),
       .answer c.sess c.reqType c.reqNum (effect quota c).2.1 (effect quota c).2.2) :=
  handleCCR_known hf hp

/-- Reservation against a non-negative balance. -/
theorem C07_reserve {st : Store} {c : CCR} {q : Quota} {quota : Int}
    (hf : find st (subscriberId c) c.rg = some q) (hp : q.parse = some quota)
    (ha : c.action = 0) (ht : c.reqType = 1 ∨ c.reqType = 2)
    (hr : c.rsu < 9223372036854775808) (h0 : 0 ≤ quota) (h1 : quota < 9223372036854775808) :
    ∃ g : Nat,
      (handleCCR st c).2 = .answer c.sess c.reqType c.reqNum (some g) (decide (quota < (c.rsu : Int))) ∧
      (g : Int) = min (c.rsu : Int) quota ∧
      find (handleCCR st c).1 (subscriberId c) c.rg = some (.num (quota - g)) ∧
      0 ≤ quota - (g : Int) := by
  rw [handle_known hf hp]
  simp only [find_put_same _ hf]
  unfold effect
  simp only [ha, ht, toI64_small hr]
  by_cases hgt : (c.rsu : Int) > quota
  · have hq0 : ¬ quota < 0 := by omega
    refine ⟨toU64 quota, ?_⟩
    have hu : (toU64 quota : Int) = quota := toU64_nonneg h0 (by omega)
    simp only [hgt, hq0, if_true, if_false, reduceCtorEq, Nat.zero_ne_one, if_neg]
    refine ⟨?_, ?_, ?_, ?_⟩
    · simp [hgt]
    · rw [hu]; omega
    · rw [hu, wrap64_id ⟨by omega, by omega⟩]
    · rw [hu]; omega
  · refine ⟨toU64 (c.rsu : Int), ?_⟩
    have hu : (toU64 (c.rsu : Int) : Int) = c.rsu := toU64_nonneg (by omega) (by omega)
    simp only [hgt, if_false, reduceCtorEq, Nat.zero_ne_one]
    refine ⟨?_, ?_, ?_, ?_⟩
    · have : ¬ quota < (c.rsu : Int) := by omega
      simp [this]
    · rw [hu]; omega
    · rw [hu, wrap64_id ⟨by omega, by omega⟩]; simp
    · rw [hu]; omega

/-- Reservation against an overdrawn account: nothing granted, balance untouched, final unit. -/
theorem C07_reserve_overdrawn {st : Store} {c : CCR} {q : Quota} {quota : Int}
    (hf : find st (subscriberId c) c.rg = some q) (hp : q.parse = some quota)
    (ha : c.action = 0) (ht : c.reqType = 1 ∨ c.reqType = 2)
    (hr : c.rsu < 9223372036854775808) (h0 : quota < 0) (h1 : -9223372036854775808 ≤ quota) :
    (handleCCR st c).2 = .answer c.sess c.reqType c.reqNum (some 0) true ∧
    find (handleCCR st c).1 (subscriberId c) c.rg = some (.num quota) := by
  rw [handle_known hf hp]
  simp only [find_put_same _ hf]
  unfold effect
  have hgt : (c.rsu : Int) > quota := by omega
  simp only [ha, ht, toI64_small hr, hgt, h0, if_true, reduceCtorEq, Nat.zero_ne_one, if_false]
  have : toU64 0 = 0 := by decide
  simp [this, wrap64_id (i := quota) ⟨by omega, by omega⟩]

/-- Refund raises the balance by exactly the stated amount. -/
theorem C07_refund {st : Store} {c : CCR} {q : Quota} {quota : Int}
    (hf : find st (subscriberId c) c.rg = some q) (hp : q.parse = some quota)
    (ha : c.action = 1) (hr : c.rsu < 9223372036854775808)
    (h0 : -9223372036854775808 ≤ quota) (h1 : quota + c.rsu < 9223372036854775808) :
    find (handleCCR st c).1 (subscriberId c) c.rg = some (.num (quota + c.rsu)) := by
  rw [handle_known hf hp]
  simp only [find_put_same _ hf]
  unfold effect
  simp only [ha, toI64_small hr, if_true]
  rw [wrap64_id ⟨by omega, by omega⟩]

/-- Termination debit lowers the balance by exactly the stated amount. -/
theorem C07_termination {st : Store} {c : CCR} {q : Quota} {quota : Int}
    (hf : find st (subscriberId c) c.rg = some q) (hp : q.parse = some quota)
    (ha : c.action = 0) (ht : c.reqType = 3) (hu : c.usu < 9223372036854775808)
    (h0 : quota < 9223372036854775808) (h1 : -9223372036854775808 ≤ quota - c.usu) :
    find (handleCCR st c).1 (subscriberId c) c.rg = some (.num (quota - c.usu)) := by
  rw [handle_known hf hp]
  simp only [find_put_same _ hf]
  unfold effect
  simp only [ha, ht, toI64_small hu, if_true, reduceCtorEq, Nat.zero_ne_one, if_false]
  have e1 : ¬ (3 = 1 ∨ 3 = 2) := by decide
  simp only [e1, if_false, if_true]
  rw [wrap64_id ⟨by omega, by omega⟩]

/-- Balance checks, price enquiries and event/unknown request types leave the balance value as it is. -/
theorem C07_no_money_moves {st : Store} {c : CCR} {q : Quota} {quota : Int}
    (hf : find st (subscriberId c) c.rg = some q) (hp : q.parse = some quota)
    (ha : 2 ≤ c.action ∨ (c.action = 0 ∧ c.reqType ≠ 1 ∧ c.reqType ≠ 2 ∧ c.reqType ≠ 3)) :
    find (handleCCR st c).1 (subscriberId c) c.rg = some (.num quota) := by
  rw [handle_known hf hp]
  simp only [find_put_same _ hf]
  unfold effect
  rcases ha with ha | ⟨ha, h1, h2, h3⟩
  · have e1 : c.action ≠ 1 := by omega
    have e2 : c.action ≠ 0 := by omega
    simp [e1, e2]
  · simp [ha, h1, h2, h3]

/-- Every answer echoes the request's Session-Id, request type and request number. -/
theorem C07_echo (st : Store) (c : CCR) :
    (handleCCR st c).2 = .noAnswer ∨
    ∃ g f, (handleCCR st c).2 = .answer c.sess c.reqType c.reqNum g f := by
  unfold handleCCR
  split
  · left; rfl
  · split
    · left; rfl
    · right; exact ⟨_, _, rfl⟩

/-- A known account with a parsable balance is always answered. -/
theorem C07_answers {st : Store} {c : CCR} {q : Quota} {quota : Int}
    (hf : find st (subscriberId c) c.rg = some q) (hp : q.parse = some quota) :
    (handleCCR st c).2 ≠ .noAnswer := by
  rw [handle_known hf hp]; simp

/-- A request for an unknown subscriber or rating group changes nothing (and is not answered). -/
theorem C07_unknown_no_effect {st : Store} {c : CCR} (hf : find st (subscriberId c) c.rg = none) :
    handleCCR st c = (st, .noAnswer) := by
  unfold handleCCR; rw [hf]

/-- So does a request on an account whose stored balance text does not parse. -/
theorem C07_unparsable_no_effect {st : Store} {c : CCR} {q : Quota}
    (hf : find st (subscriberId c) c.rg = some q) (hp : q.parse = none) :
    handleCCR st c = (st, .noAnswer) := by
  unfold handleCCR; rw [hf]; simp only [hp]

/-- No request changes the balance of any other account. -/
theorem C07_frame (st : Store) (c : CCR) (ue : Bytes) (rg : Nat)
    (hne : ¬ (ue = subscriberId c ∧ rg = c.rg)) :
    find (handleCCR st c).1 ue rg = find st ue rg := by
  unfold handleCCR
  split
  · rfl
  · split
    · rfl
    · exact find_put_other _ hne

/-! ### Sequences: the running balance is the fold of the exact per-request deltas -/

/-- a request is admissible at balance `b` if its amounts are below 2^63 and the exact result fits int64 -/
def Admissible (b : Int) (c : CCR) : Prop :=
  c.rsu < 9223372036854775808 ∧ c.usu < 9223372036854775808 ∧ InRange b ∧ InRange (b + delta b c)

theorem effect_eq_delta {b : Int} {c : CCR} (h : Admissible b c) : (effect b c).1 = b + delta b c := by
  obtain ⟨hr, hu, hb, hd⟩ := h
  unfold effect delta at *
  unfold InRange at hb hd
  by_cases a1 : c.action = 1
  · simp only [a1, if_true, toI64_small hr] at hd ⊢
    exact wrap64_id ⟨by omega, by omega⟩
  · by_cases a0 : c.action = 0
    · simp only [a0, a1, if_true, if_false, toI64_small hr, toI64_small hu, reduceCtorEq, Nat.zero_ne_one] at hd ⊢
      by_cases t12 : c.reqType = 1 ∨ c.reqType = 2
      · simp only [t12, if_true] at hd ⊢
        by_cases hgt : (c.rsu : Int) > b
        · simp only [hgt, if_true]
          by_cases hneg : b < 0
          · simp only [hneg, if_true]
            rw [wrap64_id ⟨by omega, by omega⟩]; omega
          · simp only [hneg, if_false]
            rw [wrap64_id ⟨by omega, by omega⟩]; omega
        · simp only [hgt, if_false]
          rw [wrap64_id ⟨by omega, by omega⟩]; omega
      · simp only [t12, if_false] at hd ⊢
        by_cases t3 : c.reqType = 3
        · simp only [t3, if_true] at hd ⊢
          rw [wrap64_id ⟨by omega, by omega⟩]; omega
        · simp [t3]
    · simp [a0, a1]

/-- balance of one account along a request list, as the property describes it: requests addressed to the
    account move `delta`, all others (and unanswered ones) move nothing -/
def specBalance (ue : Bytes) (rg : Nat) (b : Int) : List CCR → Int
  | [] => b
  | c :: r => if subscriberId c = ue ∧ c.rg = rg then specBalance ue rg (b + delta b c) r
              else specBalance ue rg b r

def AllAdmissible (ue : Bytes) (rg : Nat) (b : Int) : List CCR → Prop
  | [] => True
  | c :: r => if subscriberId c = ue ∧ c.rg = rg then Admissible b c ∧ AllAdmissible ue rg (b + delta b c) r
              else AllAdmissible ue rg b r

/-- After any sequence of requests (any mix of accounts, actions and request types) the stored balance
    of an account is exactly its initial balance plus the prescribed movements of the requests addressed
    to it. Unbounded in the length of the sequence. -/
theorem C07_sequence (ue : Bytes) (rg : Nat) (cs : List CCR) :
    ∀ (st : Store) (q : Quota) (b : Int), find st ue rg = some q → q.parse = some b →
      AllAdmissible ue rg b cs →
      ∃ q', find (run st cs) ue rg = some q' ∧ q'.parse = some (specBalance ue rg b cs) := by
  induction cs with
  | nil => intro st q b hf hp _; exact ⟨q, hf, hp⟩
  | cons c r ih =>
    intro st q b hf hp hadm
    unfold run specBalance
    unfold AllAdmissible at hadm
    by_cases hk : subscriberId c = ue ∧ c.rg = rg
    · simp only [hk, and_self, if_true] at hadm ⊢
      obtain ⟨hk1, hk2⟩ := hk
      subst hk1 hk2
      have hknown := handle_known hf hp
      have hfind : find (handleCCR st c).1 (subscriberId c) c.rg = some (.num (effect b c).1) := by
        rw [hknown]; exact find_put_same _ hf
      rw [effect_eq_delta hadm.1] at hfind
      exact ih _ _ _ hfind rfl hadm.2
    · simp only [hk, if_false] at hadm ⊢
      have hfr : find (handleCCR st c).1 ue rg = find st ue rg :=
        C07_frame st c ue rg (fun h => hk ⟨h.1.symm, h.2.symm⟩)
      exact ih _ q b (hfr ▸ hf) hp hadm

/-! ### Non-vacuity -/

def sampleStore : Store :=
  [{ ue := imsiPrefix ++ [49], rg := 1, quota := .raw [49, 48, 48, 48] },      -- "imsi-1"/1 = "1000"
   { ue := imsiPrefix ++ [50], rg := 7, quota := .raw [45, 50, 48, 48] }]      -- "imsi-2"/7 = "-200"

def sampleCCR : CCR :=
  { sess := [115], reqType := 2, reqNum := 5, action := 0, subType := 1, subData := [49], rg := 1,
    rsu := 1200, usu := 0 }

example : find sampleStore (subscriberId sampleCCR) sampleCCR.rg = some (.raw [49, 48, 48, 48]) := by decide
example : (Quota.raw [49, 48, 48, 48]).parse = some 1000 := by decide
example : (handleCCR sampleStore sampleCCR).2 = .answer [115] 2 5 (some 1000) true := by decide

end Chf.Props.C07

namespace Chf.Props.C07
open Chf Chf.Abmf

theorem filter_put (st : Store) (ue : Bytes) (rg : Nat) (q : Quota) :
    (put st ue rg q).filter (fun x => ¬ (x.ue = ue ∧ x.rg = rg)) =
      st.filter (fun x => ¬ (x.ue = ue ∧ x.rg = rg)) := by
  induction st with
  | nil => rfl
  | cons a r ih =>
    unfold put
    by_cases hk : a.ue = ue ∧ a.rg = rg
    · simp [hk]
    · simp only [hk, if_false, List.filter_cons, ih]

theorem admissible_of_B {b : Int} {c : CCR} (h : admissibleB b c = true) : Admissible b c := by
  unfold admissibleB inRangeB at h
  simp only [Bool.and_eq_true, decide_eq_true_eq] at h
  unfold Admissible InRange
  omega

/-- The model satisfies the step predicate that the check evaluates on implementation traces —
    for every store and every request. -/
theorem C07_model_holds (st : Store) (c : CCR) :
    holds st c (handleCCR st c).2 (handleCCR st c).1 = true := by
  unfold holds
  simp only
  cases hf : find st (subscriberId c) c.rg with
  | none => simp [C07_unknown_no_effect hf]
  | some q =>
    cases hp : q.parse with
    | none => simp [hp, C07_unparsable_no_effect hf hp]
    | some b =>
      simp only [hp]
      by_cases hadm : admissibleB b c = true
      · simp only [hadm, if_true]
        have hA := admissible_of_B hadm
        rw [handle_known hf hp]
        simp only [find_put_same _ hf, Quota.parse, effect_eq_delta hA, othersSame, filter_put,
          beq_self_eq_true, Bool.and_true, Bool.true_and]
        obtain ⟨hr, hu, hb, hd⟩ := hA
        unfold InRange at hb hd
        have hres : isReserve c = true → (effect b c).2.1 = some (min (c.rsu : Int) (max b 0)).toNat ∧
            (effect b c).2.2 = decide ((c.rsu : Int) > b) := by
          intro hres
          unfold isReserve at hres
          simp only [Bool.and_eq_true, Bool.or_eq_true, decide_eq_true_eq] at hres
          obtain ⟨ha, ht⟩ := hres
          unfold effect
          simp only [ha, ht, toI64_small hr, if_true, reduceCtorEq, Nat.zero_ne_one, if_false]
          by_cases hgt : (c.rsu : Int) > b
          · by_cases hneg : b < 0
            · simp only [hgt, hneg, if_true, decide_true, and_true, Option.some.injEq]
              have : min (c.rsu : Int) (max b 0) = 0 := by omega
              rw [this]; decide
            · simp only [hgt, hneg, if_true, if_false, decide_true, and_true, Option.some.injEq]
              have : min (c.rsu : Int) (max b 0) = b := by omega
              rw [this]
              unfold toU64
              rw [Int.emod_eq_of_lt (by omega) (by omega)]
          · simp only [hgt, if_false, decide_false, and_true, Option.some.injEq]
            have : min (c.rsu : Int) (max b 0) = c.rsu := by omega
            rw [this]
            unfold toU64
            rw [Int.emod_eq_of_lt (by omega) (by omega)]
        have hnn : isReserve c = true → 0 ≤ b → 0 ≤ b + delta b c := by
          intro hres h0
          unfold isReserve at hres
          simp only [Bool.and_eq_true, Bool.or_eq_true, decide_eq_true_eq] at hres
          obtain ⟨ha, ht⟩ := hres
          unfold delta
          simp only [ha, ht, if_true, reduceCtorEq, Nat.zero_ne_one, if_false]
          omega
        by_cases hres' : isReserve c = true
        · obtain ⟨e1, e2⟩ := hres hres'
          simp only [hres', e1, e2, beq_self_eq_true, Bool.and_true, if_true, forall_const, decide_eq_true_eq]
          simp only [Bool.and_self, Bool.true_and, decide_eq_true_eq, true_and]
          intro h0; exact hnn hres' h0
        · simp [hres']
      · simp [hadm]

/-! ### requests for one account arriving on several connections at once

  go-diameter serves every connection in a task of its own, so `handleCCR` runs concurrently with itself.  The theorems
  above are about `handleCCR` as ONE step per request; the regenerated source fact below is what makes the real handler
  such a step for requests of the same account: the store read and the store write happen while a lock taken before
  the read — built from the subscriber and the rating group — is held until the handler returns.  Every interleaving
  of the connections' requests is then SOME list of such steps, and the statements below hold for every list. -/

/-- the read-modify-write of an account is bracketed by a per-account lock held to the end of the handler -/
theorem C07_account_step_atomic :
    Gen.abmfServer.lockBeforeRead = true ∧ Gen.abmfServer.heldToReturn = true ∧ Gen.abmfServer.perAccount = true ∧
    Gen.abmfServer.readsAndWrites = true := by decide

/-- the grants the server answers along a list of requests -/
def grantsSum (st : Store) : List CCR → Nat
  | [] => 0
  | c :: r =>
    (match (handleCCR st c).2 with
     | .answer _ _ _ (some g) _ => g
     | _ => 0) + grantsSum (handleCCR st c).1 r

/-- a reservation (INITIAL/UPDATE, DIRECT_DEBITING) of at most 2^63-1 for the account (ue, rg) -/
def IsReservationFor (ue : Bytes) (rg : Nat) (c : CCR) : Prop :=
  subscriberId c = ue ∧ c.rg = rg ∧ c.action = 0 ∧ (c.reqType = 1 ∨ c.reqType = 2) ∧ c.rsu < 9223372036854775808

/-- C07 for any number of reservations of one account in ANY order (hence for every interleaving of the requests of any
    number of connections): the grants add up to exactly what the balance went down by, and the balance never goes
    below zero — nothing is granted twice, nothing is lost. -/
theorem C07_concurrent_reservations (ue : Bytes) (rg : Nat) (cs : List CCR) :
    ∀ (st : Store) (q : Quota) (b : Int), find st ue rg = some q → q.parse = some b → 0 ≤ b → b < 9223372036854775808 →
      (∀ c ∈ cs, IsReservationFor ue rg c) →
      ∃ (q' : Quota) (b' : Int), find (run st cs) ue rg = some q' ∧ q'.parse = some b' ∧ 0 ≤ b' ∧
        (grantsSum st cs : Int) = b - b' := by
  induction cs with
  | nil =>
    intro st q b hf hp h0 _ _
    exact ⟨q, b, hf, hp, h0, by simp [grantsSum]⟩
  | cons c r ih =>
    intro st q b hf hp h0 h1 hall
    obtain ⟨hs, hrg, ha, ht, hr⟩ := hall c (by simp)
    have hf' : find st (subscriberId c) c.rg = some q := by rw [hs, hrg]; exact hf
    obtain ⟨g, hrep, hg, hfind, hnn⟩ := C07_reserve hf' hp ha ht hr h0 h1
    rw [hs, hrg] at hfind
    have hlt : b - (g : Int) < 9223372036854775808 := by omega
    obtain ⟨q', b', e1, e2, e3, e4⟩ := ih (handleCCR st c).1 (.num (b - g)) (b - g) hfind rfl hnn hlt
      (fun x hx => hall x (by simp [hx]))
    refine ⟨q', b', e1, e2, e3, ?_⟩
    simp only [grantsSum, hrep]
    omega

/-- non-vacuity: three connections' reservations of 60 against a balance of 100, in some interleaving: 100 granted in all -/
example :
    let c : Nat → CCR := fun k => { sess := [], reqType := 2, reqNum := k, action := 0, subType := 1, subData := [49], rg := 1, rsu := 60, usu := 0 }
    grantsSum [{ ue := [105, 109, 115, 105, 45, 49], rg := 1, quota := .num 100 }] [c 0, c 1, c 2] = 100 := by decide

end Chf.Props.C07
