import ChfVerif.Model.DiamClient
import ChfVerif.Gen.DiamClient
/-
  C19 — late or lost Diameter answers neither cross-talk nor block later requests; and
  C18 (see Props/C18.lean) — connections stay bounded.  Both are invariants of the client machine of
  Model/DiamClient.lean under *every* scheduler: any interleaving of request starts, answer arrivals (of any
  request, any number of times, in any order, arbitrarily late or never), timer expiries and returns.

  The theorems are about a configuration `cfg` with `cfg.good`; `cfg_good` states, by `decide` over the
  regenerated Gen/DiamClient.lean, that both client functions of the working tree have that configuration.
  The witnesses at the end show that each of the facts is needed (they are the defects repaired in
  396fba5 / 93b0ba8).
-/
namespace Chf.Props.C19
open Chf.DiamClient

/-- the working tree's two client functions are of the configuration the theorems are about -/
theorem cfg_good : Chf.Gen.abmfClient.good = true ∧ Chf.Gen.ratingClient.good = true := by decide

def okOutcome : Outcome → Prop
  | .own _ => True
  | .timeout _ => True
  | .foreign _ _ => False

structure Inv (s : St) : Prop where
  notBlocked : s.blocked = 0
  notWedged : s.wedged = false
  logOk : ∀ o ∈ s.log, okOutcome o
  connsOwned : ∀ j ∈ s.conns, s.cur = some j ∨ s.returning = some j
  exclusive : s.cur.isSome = true → s.returning = none
  curReg : ∀ k, s.cur = some k → s.reg = k ∧ k < s.next
  bufOld : ∀ x ∈ s.buf, x.1 < s.next
  regOld : s.reg < s.next
  bufCur : ∀ k, s.cur = some k → ∀ x ∈ s.buf, x.1 ≠ k
  connsShort : s.conns.length ≤ (if (s.cur.isSome || s.returning.isSome) = true then 1 else 0)
  lateNone : s.lateDials = []
  dialExcl : ∀ k, s.dialing = some k →
    s.cur = none ∧ s.returning = none ∧ s.conns = [] ∧ s.reg = k ∧ k < s.next ∧ ∀ x ∈ s.buf, x.1 ≠ k

theorem inv_init : Inv {} := by
  constructor <;> simp

theorem takeMsg_none (buf : List (Nat × Nat)) (c : Nat) (h : ∀ x ∈ buf, x.1 ≠ c) : takeMsg buf c = none := by
  unfold takeMsg
  have : buf.find? (fun x => x.1 == c) = none := by
    rw [List.find?_eq_none]
    intro x hx; simpa using h x hx
  rw [this]

theorem step_inv (cfg : Cfg) (hg : cfg.good = true) (s : St) (ev : Ev) (h : Inv s) : Inv (step cfg s ev) := by
  have hG := Cfg.good_unpack hg
  have hser : cfg.serial = true := hG.serial
  have hcb : cfg.connBound = true := hG.connBound
  obtain ⟨hc, ho, hb, hn, hsd⟩ : cfg.closesConn = true ∧ cfg.ownChan = true ∧ cfg.buffered = true ∧ cfg.nonBlocking = true ∧
      cfg.syncDial = true := ⟨hG.closesConn, hG.ownChan, hG.buffered, hG.nonBlocking, hG.syncDial⟩
  have hchan : ∀ k, chanOf cfg k = k := by intro k; simp [chanOf, ho]
  -- a request that waits, or that is returning, is not dialling
  have hdialCur : ∀ k, s.cur = some k → s.dialing = none := by
    intro k hk
    cases hd : s.dialing with
    | none => rfl
    | some d => have := (h.dialExcl d hd).1; simp [hk] at this
  have hdialRet : ∀ k, s.returning = some k → s.dialing = none := by
    intro k hk
    cases hd : s.dialing with
    | none => rfl
    | some d => have := (h.dialExcl d hd).2.1; simp [hk] at this
  cases ev with
  | start =>
    unfold step
    by_cases hw : s.wedged = true
    · simp [hw]; exact h
    · simp only [hw, Bool.false_eq_true, if_false, hser, Bool.true_and]
      by_cases hbusy : (s.cur.isSome || s.returning.isSome || s.dialing.isSome) = true
      · simp only [hbusy, if_true]; exact h
      · simp only [hbusy, Bool.false_eq_true, if_false]
        have hb0 := h.notBlocked
        simp only [hb0, Nat.lt_irrefl, gt_iff_lt, if_false]
        simp only [Bool.or_eq_true, not_or, Bool.not_eq_true, Option.isSome_eq_false_iff, Option.isNone_iff_eq_none] at hbusy
        obtain ⟨⟨hb1, hb2⟩, hb3⟩ := hbusy
        -- the new request's channel is fresh: nothing to drain
        have hd : ∀ x ∈ s.buf, x.1 ≠ chanOf cfg s.next := by
          intro x hx; rw [hchan]; have := h.bufOld x hx; omega
        unfold drain
        simp only [takeMsg_none s.buf _ hd]
        constructor
        · rfl
        · rfl
        · exact h.logOk
        · intro j hj
          simp only [List.mem_cons] at hj
          rcases hj with rfl | hj
          · left; rfl
          · have := h.connsOwned j hj; simp [hb1, hb2] at this
        · intro _; exact hb2
        · intro k hk; simp only [Option.some.injEq] at hk; subst hk; exact ⟨hchan _, Nat.lt_succ_self _⟩
        · intro x hx; have := h.bufOld x hx; exact Nat.lt_succ_of_lt this
        · show chanOf cfg s.next < s.next + 1; rw [hchan]; exact Nat.lt_succ_self _
        · intro k hk x hx; simp only [Option.some.injEq] at hk; subst hk; have := h.bufOld x hx; omega
        · have := h.connsShort
          simp only [hb1, hb2, Option.isSome_none, Bool.or_self, Bool.false_eq_true, if_false, Nat.le_zero,
            List.length_eq_zero_iff] at this
          simp [this]
        · exact h.lateNone
        · intro k hk; simp [hb3] at hk
  | answer j =>
    unfold step
    by_cases hj : s.conns.contains j = true
    · simp only [hj, Bool.not_true, Bool.false_eq_true, if_false]
      -- a connection is open: nobody is dialling
      have hnd : s.dialing = none := by
        cases hd : s.dialing with
        | none => rfl
        | some d => have := (h.dialExcl d hd).2.2.1; simp [this] at hj
      cases hcur : s.cur with
      | some k =>
        simp only
        have hreg := (h.curReg k hcur).1
        simp only [hchan, hreg, if_true]
        have hret : s.returning = none := h.exclusive (by simp [hcur])
        have hjk : j = k := by
          have := h.connsOwned j (by simpa using hj)
          simp [hcur, hret] at this; exact this.symm
        subst hjk
        constructor
        · exact h.notBlocked
        · exact h.notWedged
        · intro o ho'
          simp only [List.mem_cons] at ho'
          rcases ho' with rfl | ho'
          · simp [outcomeOf, okOutcome]
          · exact h.logOk o ho'
        · intro i hi; right; have := h.connsOwned i hi; simp [hcur, hret] at this; simp [this]
        · intro hh; simp at hh
        · intro k' hk'; simp at hk'
        · exact h.bufOld
        · exact (h.curReg _ hcur).2
        · intro k' hk'; simp at hk'
        · have := h.connsShort; simp [hcur] at this; simpa using this
        · exact h.lateNone
        · intro k' hk'; simp [hnd] at hk'
      | none =>
        simp only [hb, Bool.true_and]
        by_cases hm : hasMsg s.buf s.reg = true
        · simp only [hm, Bool.not_true, Bool.false_eq_true, if_false, hn, if_true]
          exact h
        · simp only [hm, Bool.not_false, if_true]
          constructor
          · exact h.notBlocked
          · exact h.notWedged
          · exact h.logOk
          · intro i hi; have := h.connsOwned i hi; simpa [hcur] using this
          · intro hh; simp at hh
          · intro k hk; simp at hk
          · intro x hx
            simp only [List.mem_cons] at hx
            rcases hx with rfl | hx
            · exact h.regOld
            · exact h.bufOld x hx
          · exact h.regOld
          · intro k hk; simp at hk
          · have := h.connsShort; simpa [hcur] using this
          · exact h.lateNone
          · intro k' hk'; simp [hnd] at hk'
    · simp only [hj, Bool.not_false, if_true]; exact h
  | timeout =>
    unfold step
    cases hcur : s.cur with
    | none => simp only; exact h
    | some k =>
      simp only
      have hret : s.returning = none := h.exclusive (by simp [hcur])
      have hnd := hdialCur k hcur
      constructor
      · exact h.notBlocked
      · exact h.notWedged
      · intro o ho'
        simp only [List.mem_cons] at ho'
        rcases ho' with rfl | ho'
        · simp [okOutcome]
        · exact h.logOk o ho'
      · intro i hi; right; have := h.connsOwned i hi; simp [hcur, hret] at this; simp [this]
      · intro hh; simp at hh
      · intro k' hk'; simp at hk'
      · exact h.bufOld
      · exact h.regOld
      · intro k' hk'; simp at hk'
      · have := h.connsShort; simp [hcur] at this; simpa using this
      · exact h.lateNone
      · intro k' hk'; simp [hnd] at hk'
  | ret =>
    unfold step
    cases hret : s.returning with
    | none => simp only; exact h
    | some k =>
      simp only [hc, if_true]
      have hnd := hdialRet k hret
      have hcur : s.cur = none := by
        cases hcc : s.cur with
        | none => rfl
        | some k' => have := h.exclusive (by simp [hcc]); simp [hret] at this
      constructor
      · exact h.notBlocked
      · exact h.notWedged
      · exact h.logOk
      · intro i hi
        simp only [List.mem_filter, bne_iff_ne, ne_eq] at hi
        have := h.connsOwned i hi.1
        simp [hcur, hret] at this
        exact absurd this.symm hi.2
      · intro hh; simp [hcur] at hh
      · intro k' hk'; simp [hcur] at hk'
      · exact h.bufOld
      · exact h.regOld
      · intro k' hk'; simp [hcur] at hk'
      · have hall : ∀ i ∈ s.conns, i = k := by
          intro i hi; have := h.connsOwned i hi; simp [hcur, hret] at this; exact this.symm
        have : s.conns.filter (· != k) = [] := by
          rw [List.filter_eq_nil_iff]; intro i hi; simp [hall i hi]
        simp [this, hcur]
      · exact h.lateNone
      · intro k' hk'; simp [hnd] at hk'
  | startSlow =>
    unfold step
    by_cases hw : s.wedged = true
    · simp [hw]; exact h
    · simp only [hw, Bool.false_eq_true, if_false, hser, Bool.true_and]
      by_cases hbusy : (s.cur.isSome || s.returning.isSome || s.dialing.isSome) = true
      · simp only [hbusy, if_true]; exact h
      · simp only [hbusy, Bool.false_eq_true, if_false]
        have hb0 := h.notBlocked
        simp only [hb0, Nat.lt_irrefl, gt_iff_lt, if_false]
        simp only [Bool.or_eq_true, not_or, Bool.not_eq_true, Option.isSome_eq_false_iff, Option.isNone_iff_eq_none] at hbusy
        obtain ⟨⟨hb1, hb2⟩, hb3⟩ := hbusy
        have hconns : s.conns = [] := by
          have := h.connsShort
          simpa [hb1, hb2] using this
        constructor
        · first | exact hb0 | rfl | simp [hb0]
        · first | rfl | simp [hw]
        · exact h.logOk
        · intro j hj; simp [hconns] at hj
        · intro hh; simp [hb1] at hh
        · intro k hk; simp [hb1] at hk
        · intro x hx; have := h.bufOld x hx; exact Nat.lt_succ_of_lt this
        · show chanOf cfg s.next < s.next + 1; rw [hchan]; exact Nat.lt_succ_self _
        · intro k hk; simp [hb1] at hk
        · simp [hconns]
        · exact h.lateNone
        · intro k hk
          simp only [Option.some.injEq] at hk
          subst hk
          refine ⟨hb1, hb2, hconns, hchan _, Nat.lt_succ_self _, ?_⟩
          intro x hx; have := h.bufOld x hx; omega
  | dialDone k =>
    unfold step
    by_cases hd : s.dialing = some k
    · simp only [hd, if_true]
      obtain ⟨e1, e2, e3, e4, e5, e6⟩ := h.dialExcl k hd
      have hdr : ∀ x ∈ s.buf, x.1 ≠ chanOf cfg k := by intro x hx; rw [hchan]; exact e6 x hx
      unfold drain
      simp only [takeMsg_none s.buf _ hdr]
      constructor
      · exact h.notBlocked
      · exact h.notWedged
      · exact h.logOk
      · intro j hj; simp [e3] at hj; left; simp [hj]
      · intro _; exact e2
      · intro k' hk'; simp only [Option.some.injEq] at hk'; subst hk'; exact ⟨e4, e5⟩
      · exact h.bufOld
      · exact h.regOld
      · intro k' hk' x hx; simp only [Option.some.injEq] at hk'; subst hk'; exact e6 x hx
      · simp [e3]
      · exact h.lateNone
      · intro k' hk'; simp at hk'
    · simp only [hd, if_false, h.lateNone, List.contains_nil, Bool.false_eq_true]
      exact h
  | dialGiveUp =>
    unfold step
    cases hd : s.dialing with
    | none => simp only; exact h
    | some k => simp only [hsd, if_true]; exact h
  | staleAnswer j =>
    -- the registered handler was made for another connection: the message is ignored, only the bookkeeping of
    -- closed connections changes
    unfold step
    by_cases hs : s.stale.contains j = true
    · simp only [hs, Bool.not_true, Bool.false_eq_true, if_false, hcb, if_true]
      exact ⟨h.notBlocked, h.notWedged, h.logOk, h.connsOwned, h.exclusive, h.curReg, h.bufOld, h.regOld, h.bufCur,
        h.connsShort, h.lateNone, h.dialExcl⟩
    · simp only [hs, Bool.not_false, if_true]; exact h

theorem run_inv (cfg : Cfg) (hg : cfg.good = true) (evs : List Ev) : ∀ s, Inv s → Inv (run cfg s evs) := by
  induction evs with
  | nil => intro s h; exact h
  | cons e r ih => intro s h; exact ih _ (step_inv cfg hg s e h)

/-- every state the machine can reach, whatever the scheduler does -/
theorem reachable_inv (cfg : Cfg) (hg : cfg.good = true) (evs : List Ev) : Inv (run cfg {} evs) :=
  run_inv cfg hg evs {} inv_init

/-- C19 (no cross-talk): every answer a request acted upon is the answer to that very request -/
theorem C19_no_crosstalk (cfg : Cfg) (hg : cfg.good = true) (evs : List Ev) (k j : Nat) :
    Outcome.foreign k j ∉ (run cfg {} evs).log := by
  intro hmem
  exact (reachable_inv cfg hg evs).logOk _ hmem

/-- C19 (no blocking): no handler is ever left blocked and no request is ever stuck behind one … -/
theorem C19_never_wedged (cfg : Cfg) (hg : cfg.good = true) (evs : List Ev) :
    (run cfg {} evs).wedged = false ∧ (run cfg {} evs).blocked = 0 :=
  ⟨(reachable_inv cfg hg evs).notWedged, (reachable_inv cfg hg evs).notBlocked⟩

/-- … so the subscriber's next request always gets going, whatever happened to the earlier ones -/
theorem C19_next_request_starts (cfg : Cfg) (hg : cfg.good = true) (evs : List Ev)
    (hidle : (run cfg {} evs).cur = none ∧ (run cfg {} evs).returning = none ∧ (run cfg {} evs).dialing = none) :
    (step cfg (run cfg {} evs) .start).cur = some (run cfg {} evs).next := by
  have h := reachable_inv cfg hg evs
  have ho : cfg.ownChan = true := (Cfg.good_unpack hg).ownChan
  unfold step
  simp only [h.notWedged, hidle.1, hidle.2.1, hidle.2.2, h.notBlocked, Option.isSome_none, Bool.or_self, Bool.false_eq_true,
    if_false, Nat.lt_irrefl, gt_iff_lt, Bool.and_false]
  have hd : ∀ x ∈ (run cfg {} evs).buf, x.1 ≠ chanOf cfg (run cfg {} evs).next := by
    intro x hx; simp only [chanOf, ho, if_true]; have := h.bufOld x hx; omega
  unfold drain
  simp only [takeMsg_none _ _ hd]

/-- a waiting request always terminates: the timer is always enabled and ends the wait -/
theorem C19_timeout_ends_wait (cfg : Cfg) (s : St) (k : Nat) (h : s.cur = some k) :
    (step cfg s .timeout).cur = none ∧ (step cfg s .timeout).log = .timeout k :: s.log := by
  unfold step; simp [h]

/-- an answer that arrives after its request has returned is discarded: it changes nothing at all -/
theorem C19_late_answer_discarded (cfg : Cfg) (hg : cfg.good = true) (evs : List Ev) (j : Nat)
    (hidle : (run cfg {} evs).cur = none ∧ (run cfg {} evs).returning = none) :
    step cfg (run cfg {} evs) (.answer j) = run cfg {} evs := by
  have h := reachable_inv cfg hg evs
  have hc := h.connsShort
  simp only [hidle.1, hidle.2, Option.isSome_none, Bool.or_self, Bool.false_eq_true, if_false, Nat.le_zero,
    List.length_eq_zero_iff] at hc
  unfold step
  simp [hc]

/-! ### a message already read when its connection is closed

  Closing a connection does not stop its reader task at once: a message the task had read by then is still handed to
  the subscriber's state machine - which all connections of the subscriber share - and so to the handler registered
  by the subscriber's NEXT request.  Reproduced on the real client functions with answers arriving within microseconds
  of the 5 s timer (`peer sweep`).  The handler therefore has to know the connection it was registered for
  (`connBound`, a regenerated source fact). -/

/-- … with a handler bound to its connection such a message is ignored: nothing but the bookkeeping of closed
    connections changes — in particular no request acts upon it (`log`), nothing is buffered, nobody blocks -/
theorem C19_stale_answer_ignored (cfg : Cfg) (hg : cfg.good = true) (s : St) (j : Nat) :
    (step cfg s (.staleAnswer j)).log = s.log ∧ (step cfg s (.staleAnswer j)).cur = s.cur ∧
    (step cfg s (.staleAnswer j)).buf = s.buf ∧ (step cfg s (.staleAnswer j)).blocked = s.blocked ∧
    (step cfg s (.staleAnswer j)).returning = s.returning := by
  have hcb := (Cfg.good_unpack hg).connBound
  unfold step
  simp only [hcb, if_true]
  split <;> simp

/-- the binding is needed: with everything else as in the working tree, a request that timed out leaves a message
    behind that the next request takes for its own answer -/
def unbound : Cfg := { Chf.Gen.ratingClient with connBound := false }

theorem C19_conn_binding_needed :
    (run unbound {} [.start, .timeout, .ret, .start, .staleAnswer 1]).log.head? = some (.foreign 2 1) := by decide

/-- … and with the binding the same schedule ends with the second request served by its own answer -/
example : (run Chf.Gen.ratingClient {} [.start, .timeout, .ret, .start, .staleAnswer 1, .answer 2, .ret]).log
    = [.own 2, .timeout 1] := by decide

/-! ### slow connection set-up

  While a request's connection is being set up its handler is already registered, so an answer read on an *older*
  connection would be put into the new request's channel and taken by it the moment it starts waiting.  With the
  deferred Close no older connection exists (`Inv.dialExcl`: while a request dials, no connection is open), and
  the dial being synchronous the request's own timer starts only when its request has been written. -/

/-- while a request is dialling, an answer to whichever request changes nothing -/
theorem C19_answer_during_setup_discarded (cfg : Cfg) (hg : cfg.good = true) (evs : List Ev) (j : Nat)
    (hd : (run cfg {} evs).dialing.isSome = true) :
    step cfg (run cfg {} evs) (.answer j) = run cfg {} evs := by
  have h := reachable_inv cfg hg evs
  cases hk : (run cfg {} evs).dialing with
  | none => simp [hk] at hd
  | some k =>
    have hc := (h.dialExcl k hk).2.2.1
    unfold step
    simp [hc]

/-- a synchronous dial cannot be given up: the event changes nothing -/
theorem C19_sync_dial_waits (cfg : Cfg) (hg : cfg.good = true) (s : St) : step cfg s .dialGiveUp = s := by
  have hsd : cfg.syncDial = true := (Cfg.good_unpack hg).syncDial
  unfold step
  cases s.dialing <;> simp [hsd]

/-- when the set-up completes the request waits on its own, empty channel with its own connection open -/
theorem C19_setup_done (cfg : Cfg) (hg : cfg.good = true) (evs : List Ev) (k : Nat)
    (hd : (run cfg {} evs).dialing = some k) :
    (step cfg (run cfg {} evs) (.dialDone k)).cur = some k ∧ (step cfg (run cfg {} evs) (.dialDone k)).conns = [k] := by
  have h := reachable_inv cfg hg evs
  have ho : cfg.ownChan = true := (Cfg.good_unpack hg).ownChan
  obtain ⟨_, _, e3, _, _, e6⟩ := h.dialExcl k hd
  have hdr : ∀ x ∈ (run cfg {} evs).buf, x.1 ≠ chanOf cfg k := by
    intro x hx; simp only [chanOf, ho, if_true]; exact e6 x hx
  unfold step
  simp only [hd, if_true]
  unfold drain
  simp only [takeMsg_none _ _ hdr, e3]
  constructor <;> first | rfl | trivial

/-! ### each fact is needed: the machines of the code before 396fba5 / 93b0ba8 -/

def before : Cfg := ⟨false, false, false, false, 5000, true, true, 0, true, true⟩       -- shared unbuffered channel, connection never closed
def closeOnly : Cfg := ⟨true, false, false, false, 5000, true, true, 0, true, true⟩    -- after 396fba5 only

/-- late answer, nobody waiting: the handler blocks and the next request is stuck for ever -/
example : (run before {} [.start, .timeout, .ret, .answer 1, .start]).wedged = true := by decide
/-- late answer while the next request waits: it is taken as that request's answer -/
example : (run before {} [.start, .timeout, .ret, .start, .answer 1]).log.head? = some (.foreign 2 1) := by decide
/-- closing the connection on return leaves the window between the timer and the return -/
example : (run closeOnly {} [.start, .timeout, .answer 1, .ret, .start]).wedged = true := by decide
/-- an exchange that goes on after its request was reported as timed out (its connection still open) while the next
    request sets its connection up: the old answer lands in the new request's channel and is taken as its answer -/
def outlives : Cfg := { Chf.Gen.abmfClient with closesConn := false }
example : (run outlives {} [.start, .timeout, .ret, .startSlow, .answer 1, .dialDone 2]).log.head? = some (.foreign 2 1) := by
  decide
/-- the same schedule on the working tree's machine: the old connection is closed, the answer is not read -/
example : (run Chf.Gen.abmfClient {} [.start, .timeout, .ret, .startSlow, .answer 1, .dialDone 2, .answer 2, .ret]).log
    = [.own 2, .timeout 1] := by decide
/-- non-vacuity: the good machine on the same schedules -/
example : (run Chf.Gen.abmfClient {} [.start, .timeout, .answer 1, .ret, .start, .answer 1, .answer 2, .ret]).log
    = [.own 2, .timeout 1] := by decide

/-! ### the requests of a subscriber are made one at a time

  The machine lets a request start only when none is in progress: every call of the two client functions is made by
  the charging operation itself, which holds the subscriber lock until it returns.  `calls_serial` states, by
  `decide` over the call sites regenerated from the working tree (Gen/DiamClient.lean: every call of
  SendAccountDebitRequest / SendServiceUsageRequest outside their own packages, with whether it sits - directly or
  through helper functions - in a `go` statement, a deferred call or a function literal), that this is so; it is
  part of `Cfg.good`.  `C19_serial_needed`: a request made in the background breaks the property on the otherwise
  good machine - the answer to the background request is taken by the next request. -/

/-- the extractor saw the call sites (it did not go blind) and none of them is asynchronous -/
theorem calls_serial :
    Chf.Gen.clientCallSites ≠ [] ∧ Chf.Gen.clientCallSites.all (fun c => !c.async) = true ∧
    Chf.Gen.abmfClient.serial = true ∧ Chf.Gen.ratingClient.serial = true := by decide

/-- the machine of the working tree's client function, were one of its calls made in the background -/
def background : Cfg := { Chf.Gen.abmfClient with serial := false }

/-- the fact is needed: the operation returns, its request still waits; the next request of the subscriber is
    given the answer to it -/
theorem C19_serial_needed :
    Outcome.foreign 2 1 ∈ (run background {} [.start, .start, .answer 1]).log := by decide

end Chf.Props.C19
