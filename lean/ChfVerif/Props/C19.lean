import ChfVerif.Model.DiamClient
import ChfVerif.Gen.DiamClient
/-
  C19 — late or lost Diameter answers neither cross-talk nor block later requests; and
  C18 (see Props/C18.lean) — connections stay bounded.  Both are invariants of the client machine of
  Model/DiamClient.lean under *every* scheduler: any interleaving of request starts, answer arrivals (of any
  request, any number of times, in any order, arbitrarily late or never), timer expiries and returns.

  The theorems are about a configuration `cfg` with `cfg.good`; `cfg_good` states, by `decide` over the
  regenerated Gen/DiamClient.lean, that both client functions of the working tree have that configuration.
  The witnesses at the end show that each of the facts is needed (they are the defects repaired in
  396fba5 / 93b0ba8).
-/
namespace Chf.Props.C19
open Chf.DiamClient

/-- the working tree's two client functions are of the configuration the theorems are about -/
theorem cfg_good : Chf.Gen.abmfClient.good = true ∧ Chf.Gen.ratingClient.good = true := by decide

def okOutcome : Outcome → Prop
  | .own _ => True
  | .timeout _ => True
  | .foreign _ _ => False

structure Inv (s : St) : Prop where
  notBlocked : s.blocked = 0
  notWedged : s.wedged = false
  logOk : ∀ o ∈ s.log, okOutcome o
  connsOwned : ∀ j ∈ s.conns, s.cur = some j ∨ s.returning = some j
  exclusive : s.cur.isSome = true → s.returning = none
  curReg : ∀ k, s.cur = some k → s.reg = k ∧ k < s.next
  bufOld : ∀ x ∈ s.buf, x.1 < s.next
  regOld : s.reg < s.next
  bufCur : ∀ k, s.cur = some k → ∀ x ∈ s.buf, x.1 ≠ k
  connsShort : s.conns.length ≤ (if (s.cur.isSome || s.returning.isSome) = true then 1 else 0)

theorem inv_init : Inv {} := by
  constructor <;> simp

theorem takeMsg_none (buf : List (Nat × Nat)) (c : Nat) (h : ∀ x ∈ buf, x.1 ≠ c) : takeMsg buf c = none := by
  unfold takeMsg
  have : buf.find? (fun x => x.1 == c) = none := by
    rw [List.find?_eq_none]
    intro x hx; simpa using h x hx
  rw [this]

theorem step_inv (cfg : Cfg) (hg : cfg.good = true) (s : St) (ev : Ev) (h : Inv s) : Inv (step cfg s ev) := by
  have hg' : cfg.closesConn = true ∧ cfg.ownChan = true ∧ cfg.buffered = true ∧ cfg.nonBlocking = true := by
    simp [Cfg.good] at hg; exact ⟨hg.1.1.1.1.1, hg.1.1.1.1.2, hg.1.1.1.2, hg.1.1.2⟩
  have hser : cfg.serial = true := by simp [Cfg.good] at hg; exact hg.2
  obtain ⟨hc, ho, hb, hn⟩ := hg'
  have hchan : ∀ k, chanOf cfg k = k := by intro k; simp [chanOf, ho]
  cases ev with
  | start =>
    unfold step
    by_cases hw : s.wedged = true
    · simp [hw]; exact h
    · simp only [hw, Bool.false_eq_true, if_false, hser, Bool.true_and]
      by_cases hbusy : (s.cur.isSome || s.returning.isSome) = true
      · simp only [hbusy, if_true]; exact h
      · simp only [hbusy, Bool.false_eq_true, if_false]
        have hb0 := h.notBlocked
        simp only [hb0, Nat.lt_irrefl, gt_iff_lt, if_false]
        simp only [Bool.or_eq_true, not_or, Bool.not_eq_true, Option.isSome_eq_false_iff, Option.isNone_iff_eq_none] at hbusy
        -- the new request's channel is fresh: nothing to drain
        have hd : ∀ x ∈ s.buf, x.1 ≠ chanOf cfg s.next := by
          intro x hx; rw [hchan]; have := h.bufOld x hx; omega
        unfold drain
        simp only [takeMsg_none s.buf _ hd]
        constructor
        · rfl
        · rfl
        · exact h.logOk
        · intro j hj
          simp only [List.mem_cons] at hj
          rcases hj with rfl | hj
          · left; rfl
          · have := h.connsOwned j hj; simp [hbusy.1, hbusy.2] at this
        · intro _; exact hbusy.2
        · intro k hk; simp only [Option.some.injEq] at hk; subst hk; exact ⟨hchan _, Nat.lt_succ_self _⟩
        · intro x hx; have := h.bufOld x hx; exact Nat.lt_succ_of_lt this
        · show chanOf cfg s.next < s.next + 1; rw [hchan]; exact Nat.lt_succ_self _
        · intro k hk x hx; simp only [Option.some.injEq] at hk; subst hk; have := h.bufOld x hx; omega
        · have := h.connsShort
          simp only [hbusy.1, hbusy.2, Option.isSome_none, Bool.or_self, Bool.false_eq_true, if_false, Nat.le_zero,
            List.length_eq_zero_iff] at this
          simp [this]
  | answer j =>
    unfold step
    by_cases hj : s.conns.contains j = true
    · simp only [hj, Bool.not_true, Bool.false_eq_true, if_false]
      cases hcur : s.cur with
      | some k =>
        simp only
        have hreg := (h.curReg k hcur).1
        simp only [hchan, hreg, if_true]
        have hret : s.returning = none := h.exclusive (by simp [hcur])
        have hjk : j = k := by
          have := h.connsOwned j (by simpa using hj)
          simp [hcur, hret] at this; exact this.symm
        subst hjk
        constructor
        · exact h.notBlocked
        · exact h.notWedged
        · intro o ho'
          simp only [List.mem_cons] at ho'
          rcases ho' with rfl | ho'
          · simp [outcomeOf, okOutcome]
          · exact h.logOk o ho'
        · intro i hi; right; have := h.connsOwned i hi; simp [hcur, hret] at this; simp [this]
        · intro hh; simp at hh
        · intro k' hk'; simp at hk'
        · exact h.bufOld
        · exact (h.curReg _ hcur).2
        · intro k' hk'; simp at hk'
        · have := h.connsShort; simp [hcur] at this; simpa using this
      | none =>
        simp only [hb, Bool.true_and]
        by_cases hm : hasMsg s.buf s.reg = true
        · simp only [hm, Bool.not_true, Bool.false_eq_true, if_false, hn, if_true]
          exact h
        · simp only [hm, Bool.not_false, if_true]
          constructor
          · exact h.notBlocked
          · exact h.notWedged
          · exact h.logOk
          · intro i hi; have := h.connsOwned i hi; simpa [hcur] using this
          · intro hh; simp at hh
          · intro k hk; simp at hk
          · intro x hx
            simp only [List.mem_cons] at hx
            rcases hx with rfl | hx
            · exact h.regOld
            · exact h.bufOld x hx
          · exact h.regOld
          · intro k hk; simp at hk
          · have := h.connsShort; simpa [hcur] using this
    · simp only [hj, Bool.not_false, if_true]; exact h
  | timeout =>
    unfold step
    cases hcur : s.cur with
    | none => simp only; exact h
    | some k =>
      simp only
      have hret : s.returning = none := h.exclusive (by simp [hcur])
      constructor
      · exact h.notBlocked
      · exact h.notWedged
      · intro o ho'
        simp only [List.mem_cons] at ho'
        rcases ho' with rfl | ho'
        · simp [okOutcome]
        · exact h.logOk o ho'
      · intro i hi; right; have := h.connsOwned i hi; simp [hcur, hret] at this; simp [this]
      · intro hh; simp at hh
      · intro k' hk'; simp at hk'
      · exact h.bufOld
      · exact h.regOld
      · intro k' hk'; simp at hk'
      · have := h.connsShort; simp [hcur] at this; simpa using this
  | ret =>
    unfold step
    cases hret : s.returning with
    | none => simp only; exact h
    | some k =>
      simp only [hc, if_true]
      have hcur : s.cur = none := by
        cases hcc : s.cur with
        | none => rfl
        | some k' => have := h.exclusive (by simp [hcc]); simp [hret] at this
      constructor
      · exact h.notBlocked
      · exact h.notWedged
      · exact h.logOk
      · intro i hi
        simp only [List.mem_filter, bne_iff_ne, ne_eq] at hi
        have := h.connsOwned i hi.1
        simp [hcur, hret] at this
        exact absurd this.symm hi.2
      · intro hh; simp [hcur] at hh
      · intro k' hk'; simp [hcur] at hk'
      · exact h.bufOld
      · exact h.regOld
      · intro k' hk'; simp [hcur] at hk'
      · have hall : ∀ i ∈ s.conns, i = k := by
          intro i hi; have := h.connsOwned i hi; simp [hcur, hret] at this; exact this.symm
        have : s.conns.filter (· != k) = [] := by
          rw [List.filter_eq_nil_iff]; intro i hi; simp [hall i hi]
        simp [this, hcur]

theorem run_inv (cfg : Cfg) (hg : cfg.good = true) (evs : List Ev) : ∀ s, Inv s → Inv (run cfg s evs) := by
  induction evs with
  | nil => intro s h; exact h
  | cons e r ih => intro s h; exact ih _ (step_inv cfg hg s e h)

/-- every state the machine can reach, whatever the scheduler does -/
theorem reachable_inv (cfg : Cfg) (hg : cfg.good = true) (evs : List Ev) : Inv (run cfg {} evs) :=
  run_inv cfg hg evs {} inv_init

/-- C19 (no cross-talk): every answer a request acted upon is the answer to that very request -/
theorem C19_no_crosstalk (cfg : Cfg) (hg : cfg.good = true) (evs : List Ev) (k j : Nat) :
    Outcome.foreign k j ∉ (run cfg {} evs).log := by
  intro hmem
  exact (reachable_inv cfg hg evs).logOk _ hmem

/-- C19 (no blocking): no handler is ever left blocked and no request is ever stuck behind one … -/
theorem C19_never_wedged (cfg : Cfg) (hg : cfg.good = true) (evs : List Ev) :
    (run cfg {} evs).wedged = false ∧ (run cfg {} evs).blocked = 0 :=
  ⟨(reachable_inv cfg hg evs).notWedged, (reachable_inv cfg hg evs).notBlocked⟩

/-- … so the subscriber's next request always gets going, whatever happened to the earlier ones -/
theorem C19_next_request_starts (cfg : Cfg) (hg : cfg.good = true) (evs : List Ev)
    (hidle : (run cfg {} evs).cur = none ∧ (run cfg {} evs).returning = none) :
    (step cfg (run cfg {} evs) .start).cur = some (run cfg {} evs).next := by
  have h := reachable_inv cfg hg evs
  have ho : cfg.ownChan = true := by simp [Cfg.good] at hg; exact hg.1.1.1.1.2
  unfold step
  simp only [h.notWedged, hidle.1, hidle.2, h.notBlocked, Option.isSome_none, Bool.or_self, Bool.false_eq_true,
    if_false, Nat.lt_irrefl, gt_iff_lt, Bool.and_false]
  have hd : ∀ x ∈ (run cfg {} evs).buf, x.1 ≠ chanOf cfg (run cfg {} evs).next := by
    intro x hx; simp only [chanOf, ho, if_true]; have := h.bufOld x hx; omega
  unfold drain
  simp only [takeMsg_none _ _ hd]

/-- a waiting request always terminates: the timer is always enabled and ends the wait -/
theorem C19_timeout_ends_wait (cfg : Cfg) (s : St) (k : Nat) (h : s.cur = some k) :
    (step cfg s .timeout).cur = none ∧ (step cfg s .timeout).log = .timeout k :: s.log := by
  unfold step; simp [h]

/-- an answer that arrives after its request has returned is discarded: it changes nothing at all -/
theorem C19_late_answer_discarded (cfg : Cfg) (hg : cfg.good = true) (evs : List Ev) (j : Nat)
    (hidle : (run cfg {} evs).cur = none ∧ (run cfg {} evs).returning = none) :
    step cfg (run cfg {} evs) (.answer j) = run cfg {} evs := by
  have h := reachable_inv cfg hg evs
  have hc := h.connsShort
  simp only [hidle.1, hidle.2, Option.isSome_none, Bool.or_self, Bool.false_eq_true, if_false, Nat.le_zero,
    List.length_eq_zero_iff] at hc
  unfold step
  simp [hc]

/-! ### each fact is needed: the machines of the code before 396fba5 / 93b0ba8 -/

def before : Cfg := ⟨false, false, false, false, 5000, true, true⟩       -- shared unbuffered channel, connection never closed
def closeOnly : Cfg := ⟨true, false, false, false, 5000, true, true⟩    -- after 396fba5 only

/-- late answer, nobody waiting: the handler blocks and the next request is stuck for ever -/
example : (run before {} [.start, .timeout, .ret, .answer 1, .start]).wedged = true := by decide
/-- late answer while the next request waits: it is taken as that request's answer -/
example : (run before {} [.start, .timeout, .ret, .start, .answer 1]).log.head? = some (.foreign 2 1) := by decide
/-- closing the connection on return leaves the window between the timer and the return -/
example : (run closeOnly {} [.start, .timeout, .answer 1, .ret, .start]).wedged = true := by decide
/-- non-vacuity: the good machine on the same schedules -/
example : (run Chf.Gen.abmfClient {} [.start, .timeout, .answer 1, .ret, .start, .answer 1, .answer 2, .ret]).log
    = [.own 2, .timeout 1] := by decide

/-! ### the requests of a subscriber are made one at a time

  The machine lets a request start only when none is in progress: every call of the two client functions is made by
  the charging operation itself, which holds the subscriber lock until it returns.  `calls_serial` states, by
  `decide` over the call sites regenerated from the working tree (Gen/DiamClient.lean: every call of
  SendAccountDebitRequest / SendServiceUsageRequest outside their own packages, with whether it sits - directly or
  through helper functions - in a `go` statement, a deferred call or a function literal), that this is so; it is
  part of `Cfg.good`.  `C19_serial_needed`: a request made in the background breaks the property on the otherwise
  good machine - the answer to the background request is taken by the next request. -/

/-- the extractor saw the call sites (it did not go blind) and none of them is asynchronous -/
theorem calls_serial :
    Chf.Gen.clientCallSites ≠ [] ∧ Chf.Gen.clientCallSites.all (fun c => !c.async) = true ∧
    Chf.Gen.abmfClient.serial = true ∧ Chf.Gen.ratingClient.serial = true := by decide

/-- the machine of the working tree's client function, were one of its calls made in the background -/
def background : Cfg := { Chf.Gen.abmfClient with serial := false }

/-- the fact is needed: the operation returns, its request still waits; the next request of the subscriber is
    given the answer to it -/
theorem C19_serial_needed :
    Outcome.foreign 2 1 ∈ (run background {} [.start, .start, .answer 1]).log := by decide

end Chf.Props.C19
