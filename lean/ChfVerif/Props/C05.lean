import ChfVerif.Lemmas.BerInt
import ChfVerif.Lemmas.BerRoundTrip
import ChfVerif.Lemmas.BerStructRT
import ChfVerif.Lemmas.BerSafe
import ChfVerif.Lemmas.BerMarshalSafe
import ChfVerif.Gen.Schema
import ChfVerif.Gen.AsnGlobals
import ChfVerif.Spec.C05Domain
/-
  C05 — decode(encode(v)) = v.

  Full statement (kept visible; `RoundTrip` below): for every type description, parameters and canonical
  value, if `marshal` returns octets then `unmarshal` of those octets into the same type with the same
  parameters returns that value.

  What is proved here, for all inputs:
  * `C05`: the full law, by mutual induction over the encoder (no bound on nesting, lengths or the number of
    members / elements): for every type in `rtTy` — SEQUENCE, SEQUENCE OF, CHOICE whose alternatives are
    tagged with distinct numbers, Value/List wrappers, pointers, every primitive; members with a context tag or
    a universal tag of their own, OPTIONAL members nil-able and not confusable with a later member — every
    parameter set in `rtParams` and every canonical value (`Canon`: what the decoder produces, e.g. absent
    OPTIONAL members are nil, the unselected alternatives of a CHOICE hold zero values), if `marshal` returns
    octets then `unmarshal` returns the value.  `C05_schema`: all 195 regenerated schema types are in `rtTy`
    (decide +kernel), among them the CHF's own record `CHFRecord`.  SET types and EXPLICIT tags on non-primitive
    members are outside `rtTy` / `rtParams` — the schema uses neither.
  * for primitives additionally every tagging incl. EXPLICIT (C05_integer … C05_null), the header parser on
    its own (C05_header), Value wrappers of primitives under EXPLICIT tags (C05_wrapped_*).
  For what the theorem leaves out, `RoundTrip` is decided per run by the correspondence (model =
  implementation on every generated round trip) and the DeepEqual oracle.
-/
namespace Chf.Props.C05
open Chf Chf.Ber

/-- the full law, as a proposition about the model -/
def RoundTrip (t : Ty) (p : Params) (v : Val) : Prop :=
  ∀ b, marshal t p v = .ok b → unmarshal t p b = .ok v

/-- INTEGER / ENUMERATED contents: every int64 survives intBytes → parseSigned, any sign and width -/
theorem C05_partial_integer (i : Int) (h : -9223372036854775808 ≤ i ∧ i ≤ 9223372036854775807) :
    parseSigned (intBytes i) = .ok i := parseSigned_intBytes i h

/-- storing the decoded integer back into a field of its own width does not change it -/
theorem C05_partial_int_width (w : Nat) (i : Int) (hw : w = 32 ∨ w = 64)
    (h : -(2 : Int) ^ (w - 1) ≤ i ∧ i < (2 : Int) ^ (w - 1)) : truncInt w i = i := by
  rcases hw with rfl | rfl
  · unfold truncInt
    simp only [show ¬ (32 ≥ 64) by decide, if_false]
    have h1 : (2:Int) ^ (32 - 1) = 2147483648 := by decide
    have h2 : (2:Int) ^ 32 = 4294967296 := by decide
    rw [h1] at h
    simp only [h1, h2]
    split <;> omega
  · unfold truncInt; simp

/-- BIT STRING contents: the unused-bits octet followed by the octets decodes to the same bit length -/
theorem C05_partial_bits (bs : Bytes) (n : Nat) (hn : n ≤ 8 * bs.length) (hn' : 8 * bs.length < n + 8) :
    parseBitString (((8 - n % 8) % 8) :: bs) = .ok (.bits bs n) := by
  unfold parseBitString
  have hu : (8 - n % 8) % 8 ≤ 7 := by omega
  simp only [List.length_cons, Nat.add_eq_zero_iff, Nat.succ_ne_zero, and_false, if_false, idx,
    List.getElem?_cons_zero, from_]
  have h1 : ¬ ((8 - n % 8) % 8 > 7 ∨ (bs.length + 1 = 1 ∧ (8 - n % 8) % 8 ≠ 0)) := by
    intro h; rcases h with h | ⟨h, h'⟩ <;> omega
  rw [if_neg h1]
  simp only [show 1 ≤ bs.length + 1 by omega, if_true, List.drop_succ_cons, List.drop_zero,
    Nat.add_sub_cancel]
  congr 2
  omega

/-- BOOLEAN: the encoder writes FF / 00 and the decoder maps non-zero / zero back -/
theorem C05_partial_bool (x : Bool) : (decide ((if x then 255 else 0 : Nat) ≠ 0)) = x := by
  cases x <;> decide

/-- unsupported constructs are errors in both directions, never a wrong value or a crash -/
theorem C05_oid_marshal (p : Params) (v : Val) : marshal .oid p v = .err := by
  cases v <;> simp [marshal]
theorem C05_no_panic_decode (t : Ty) (p : Params) (b : Bytes) : unmarshal t p b ≠ .panic :=
  unmarshal_no_panic_all.1 t p b
theorem C05_no_panic_encode (t : Ty) (p : Params) (v : Val) (h : optNilable t = true) : marshal t p v ≠ .panic :=
  marshal_no_panic.1 t p v h

/-- non-vacuity of the content lemmas at boundary values -/
example : parseSigned (intBytes (-9223372036854775808)) = .ok (-9223372036854775808) :=
  C05_partial_integer _ (by decide)
example : parseBitString (((8 - 16 % 8) % 8) :: [170, 85]) = .ok (.bits [170, 85] 16) :=
  C05_partial_bits _ _ (by decide) (by decide)


/-! ### the full round trip for every primitive type, with any tagging

  `marshal` of a primitive is `finish p false <universal tag> <contents>`; the lemmas `rt_*` of
  Lemmas/BerRoundTrip.lean show that `unmarshal` — through parseTagAndLength (short and long tag numbers, short
  and long lengths), the tag check, EXPLICIT unwrapping — reads the value back.  Tag numbers below 2^63 (the
  decoder accumulates them in 64 bits and gives up after 10 octets) and contents shorter than 2^63 octets. -/

open Chf.Ber in
/-- INTEGER of either Go width, every value of that width, untagged / IMPLICIT / EXPLICIT with any tag number -/
theorem C05_integer (w : Nat) (hw : w = 32 ∨ w = 64) (p : Params) (i : Int)
    (h : -(2 : Int) ^ (w - 1) ≤ i ∧ i < (2 : Int) ^ (w - 1))
    (hn : ∀ n, p.tagNumber = some n → n < 9223372036854775808) : RoundTrip (.int w) p (.int i) := by
  intro b hm
  rw [marshal] at hm
  simp only [Res.ok.injEq] at hm
  subst hm
  have hi : -9223372036854775808 ≤ i ∧ i ≤ 9223372036854775807 := by
    rcases hw with rfl | rfl
    · have h1 : (2:Int) ^ (32 - 1) = 2147483648 := by decide
      rw [h1] at h; omega
    · have h1 : (2:Int) ^ (64 - 1) = 9223372036854775808 := by decide
      rw [h1] at h; omega
  rw [rt_int w p i hi hn, C05_partial_int_width w i hw h]

open Chf.Ber in
theorem C05_enumerated (p : Params) (i : Int) (hi : -9223372036854775808 ≤ i ∧ i ≤ 9223372036854775807)
    (hn : ∀ n, p.tagNumber = some n → n < 9223372036854775808) : RoundTrip .enum p (.int i) := by
  intro b hm
  rw [marshal] at hm
  simp only [Res.ok.injEq] at hm
  subst hm
  exact rt_enum p i hi hn

open Chf.Ber in
theorem C05_boolean (p : Params) (x : Bool) (hn : ∀ n, p.tagNumber = some n → n < 9223372036854775808) :
    RoundTrip .bool p (.bool x) := by
  intro b hm
  rw [marshal] at hm
  simp only [Res.ok.injEq] at hm
  subst hm
  exact rt_bool p x hn

open Chf.Ber in
theorem C05_octet_string (p : Params) (bs : Bytes) (hn : ∀ n, p.tagNumber = some n → n < 9223372036854775808)
    (hlen : bs.length + 44 < 9223372036854775808) : RoundTrip .octets p (.bytes bs) := by
  intro b hm
  rw [marshal] at hm
  simp only [Res.ok.injEq] at hm
  subst hm
  exact rt_octets p bs hn hlen

open Chf.Ber in
/-- character strings of every kind (the universal tag comes from the utf8/ia5/graphic parameter or the Go type) -/
theorem C05_string (d : Nat) (p : Params) (bs : Bytes) (hn : ∀ n, p.tagNumber = some n → n < 9223372036854775808)
    (hd : stringTagOf p d < 9223372036854775808) (hlen : bs.length + 44 < 9223372036854775808) :
    RoundTrip (.str d) p (.str bs) := by
  intro b hm
  rw [marshal] at hm
  simp only [Res.ok.injEq] at hm
  subst hm
  exact rt_str d p bs hn hd hlen

open Chf.Ber in
/-- BIT STRING of every bit length whose octets are exactly the ones the length needs -/
theorem C05_bit_string (p : Params) (bs : Bytes) (n : Nat) (hn : ∀ k, p.tagNumber = some k → k < 9223372036854775808)
    (hlen : bs.length + 45 < 9223372036854775808) (h1 : n ≤ 8 * bs.length) (h2 : 8 * bs.length < n + 8) :
    RoundTrip .bits p (.bits bs n) := by
  intro b hm
  rw [marshal] at hm
  simp only [Res.ok.injEq] at hm
  subst hm
  exact rt_bits p bs n hn hlen h1 h2

open Chf.Ber in
theorem C05_null (p : Params) (hn : ∀ n, p.tagNumber = some n → n < 9223372036854775808) :
    RoundTrip .null p (.null true) := by
  intro b hm
  rw [marshal] at hm
  simp only [Res.ok.injEq] at hm
  subst hm
  exact rt_null p hn

open Chf.Ber in
/-- pointers are transparent: a present pointer round-trips iff what it points to does -/
theorem C05_pointer (t : Ty) (p : Params) (v : Val) (hv : v ≠ .nil) (h : RoundTrip t p v) :
    RoundTrip (.ptr t) p v := by
  intro b hm
  have e1 : marshal (.ptr t) p v = marshal t p v := by simp [marshal, hv]
  rw [e1] at hm
  rw [unmarshal]
  exact h b hm

/-- the header on its own: parseTagAndLength reads back what appendTagAndLen wrote, for every class, every tag
    number below 2^63 and every length below 2^63, whatever follows -/
theorem C05_header (cls : Nat) (c : Bool) (tag len : Nat) (rest : Bytes)
    (hcls : cls < 4) (htag : tag < 9223372036854775808) (hlen : len < 9223372036854775808)
    (hfit : len ≤ (Chf.Ber.header cls c tag len ++ rest).length) :
    Chf.Ber.parseTagAndLength (Chf.Ber.header cls c tag len ++ rest) =
      .ok ⟨cls, c, tag, len, (Chf.Ber.header cls c tag len).length⟩ :=
  Chf.Ber.parse_header cls c tag len rest hcls htag hlen hfit

/-- non-vacuity: an EXPLICIT [40] INTEGER -129 round-trips by the theorem -/
example : RoundTrip (.int 64) ⟨false, some 40, true, false, false, 0⟩ (.int (-129)) :=
  C05_integer 64 (Or.inr rfl) _ _ (by decide) (by intro n h; cases h; decide)

/-! ### Value-wrapper structs (most of the 195 schema types are a struct with one `Value` member)

  A wrapper is transparent in both directions, so it round-trips whenever the wrapped primitive does. -/

open Chf.Ber in
theorem untagged_ok (p : Params) : ∀ n, (untagged p).tagNumber = some n → n < 9223372036854775808 := by
  intro n h; simp [untagged] at h

open Chf.Ber in
theorem C05_wrapped_integer (w : Nat) (hw : w = 32 ∨ w = 64) (p : Params) (i : Int)
    (h : -(2 : Int) ^ (w - 1) ≤ i ∧ i < (2 : Int) ^ (w - 1))
    (hn : ∀ n, p.tagNumber = some n → n < 9223372036854775808) : RoundTrip (.wrap (.int w)) p (.int i) := by
  have hi : -9223372036854775808 ≤ i ∧ i ≤ 9223372036854775807 := by
    rcases hw with rfl | rfl
    · have h1 : (2:Int) ^ (32 - 1) = 2147483648 := by decide
      rw [h1] at h; omega
    · have h1 : (2:Int) ^ (64 - 1) = 9223372036854775808 := by decide
      rw [h1] at h; omega
  exact wrap_rt (.int w) (.int i) false (fun _ => 2) (intBytes i) (fun q => by rw [marshal]) (fun _ => rfl) p hn
    (fun q hq => by
      have hq' : ∀ n, q.tagNumber = some n → n < 9223372036854775808 := by
        rcases hq with rfl | rfl
        · exact hn
        · exact untagged_ok p
      rw [rt_int w q i hi hq', C05_partial_int_width w i hw h])
    (by decide) (by have := intBytes_length_le i; omega)

open Chf.Ber in
theorem C05_wrapped_enumerated (p : Params) (i : Int) (hi : -9223372036854775808 ≤ i ∧ i ≤ 9223372036854775807)
    (hn : ∀ n, p.tagNumber = some n → n < 9223372036854775808) : RoundTrip (.wrap .enum) p (.int i) :=
  wrap_rt .enum (.int i) false (fun _ => 10) (intBytes i) (fun q => by rw [marshal]) (fun _ => rfl) p hn
    (fun q hq => rt_enum q i hi (by rcases hq with rfl | rfl; exact hn; exact untagged_ok p))
    (by decide) (by have := intBytes_length_le i; omega)

open Chf.Ber in
theorem C05_wrapped_octet_string (p : Params) (bs : Bytes) (hn : ∀ n, p.tagNumber = some n → n < 9223372036854775808)
    (hlen : bs.length + 44 < 9223372036854775808) : RoundTrip (.wrap .octets) p (.bytes bs) :=
  wrap_rt .octets (.bytes bs) false (fun _ => 4) bs (fun q => by rw [marshal]) (fun _ => rfl) p hn
    (fun q hq => rt_octets q bs (by rcases hq with rfl | rfl; exact hn; exact untagged_ok p) hlen)
    (by decide) hlen

open Chf.Ber in
theorem C05_wrapped_string (d : Nat) (p : Params) (bs : Bytes) (hn : ∀ n, p.tagNumber = some n → n < 9223372036854775808)
    (hd : stringTagOf p d < 9223372036854775808) (hlen : bs.length + 44 < 9223372036854775808) :
    RoundTrip (.wrap (.str d)) p (.str bs) :=
  wrap_rt (.str d) (.str bs) false (fun q => stringTagOf q d) bs (fun q => by rw [marshal])
    (fun q => rfl) p hn
    (fun q hq => by
      rcases hq with rfl | rfl
      · exact rt_str d _ bs hn hd hlen
      · exact rt_str d _ bs (untagged_ok p) hd hlen)
    hd hlen

/-! ### the structural law -/

open Chf.Ber in
/-- C05: decode(encode v) = v, for arbitrarily nested SEQUENCE / SEQUENCE OF / CHOICE / wrapper / pointer types -/
theorem C05 (t : Ty) (p : Params) (v : Val) (ht : rtTy t = true) (hp : rtParams p = true) (hv : Canon t v)
    (b : Bytes) (hm : marshal t p v = .ok b) (hl : b.length < 4611686018427387904) :
    unmarshal t p b = .ok v :=
  (roundtrip_all.1 t p v p b rfl hp ht hv hm hl).1

open Chf.Ber in
/-- every one of the regenerated schema types is covered -/
theorem C05_schema : Gen.schema.all (fun e => rtTy e.2) = true := by decide +kernel

open Chf.Ber in
/-- … so every canonical value of every CDR schema type that marshals round-trips, under any parameters in `rtParams` -/
theorem C05_every_schema_type (name : String) (t : Ty) (hmem : (name, t) ∈ Gen.schema) (p : Params) (v : Val)
    (hp : rtParams p = true) (hv : Canon t v) (b : Bytes) (hm : marshal t p v = .ok b)
    (hl : b.length < 4611686018427387904) : unmarshal t p b = .ok v :=
  C05 t p v (by simpa using List.all_eq_true.mp C05_schema (name, t) hmem) hp hv b hm hl

open Chf.Ber in
/-- in particular the record the CHF writes, with the parameters the CHF uses ("explicit,choice") -/
theorem C05_chf_record (v : Val) (hv : Canon Gen.T_CHFRecord v) (b : Bytes)
    (hm : marshal Gen.T_CHFRecord ⟨false, none, true, false, false, 0⟩ v = .ok b) (hl : b.length < 4611686018427387904) :
    unmarshal Gen.T_CHFRecord ⟨false, none, true, false, false, 0⟩ b = .ok v :=
  C05 _ _ v (by decide +kernel) (by decide) hv b hm hl

open Chf.Ber in
/-- non-vacuity: a SEQUENCE with an absent OPTIONAL member, a present one and a CHOICE member is canonical -/
example : Canon
    (.struct (.cons ⟨true, some 0, false, false, false, 0⟩ (.ptr (.int 64))
             (.cons ⟨true, some 1, false, false, false, 0⟩ (.ptr .bool)
             (.cons ⟨false, some 2, false, false, false, 0⟩
                (.choice (.cons ⟨false, some 0, false, false, false, 0⟩ .octets
                         (.cons ⟨false, some 1, false, false, false, 0⟩ .enum .nil))) .nil))))
    (.struct (.cons .nil (.cons (.bool true) (.cons (.choice 2 (.cons .nil (.cons (.int 7) .nil))) .nil)))) := by
  refine .struct (.absent rfl (.present (.ptr .bool) (.present ?_ .nil)))
  exact .choice (v := .int 7) (by decide) (.there (.here (.enum ⟨by decide, by decide⟩))) rfl rfl

/-! ### the domain the check judges (`ber dom` of the driver) is one the law is proved for -/

open Chf.Ber in
theorem primParams_tag {p : Params} (h : primParams p = true) : ∀ n, p.tagNumber = some n → n < 9223372036854775808 := by
  intro n hn
  simpa [primParams, hn] using h

open Chf.Ber in
theorem trunc32_range (i : Int) (h : truncInt 32 i = i) : -(2 : Int) ^ (32 - 1) ≤ i ∧ i < (2 : Int) ^ (32 - 1) := by
  have h1 : (2 : Int) ^ (32 - 1) = 2147483648 := by decide
  have h2 : (2 : Int) ^ 32 = 4294967296 := by decide
  unfold truncInt at h
  simp only [show ¬ (32 ≥ 64) by decide, if_false, h1, h2] at h
  rw [h1]
  split at h <;> omega

open Chf.Ber in
theorem int_range (w : Nat) (hw : w = 32 ∨ w = 64) (i : Int) (h64 : int64 i) (ht : truncInt w i = i) :
    -(2 : Int) ^ (w - 1) ≤ i ∧ i < (2 : Int) ^ (w - 1) := by
  rcases hw with rfl | rfl
  · exact trunc32_range i ht
  · have h1 : (2 : Int) ^ (64 - 1) = 9223372036854775808 := by decide
    rw [h1]; unfold int64 at h64; omega

open Chf.Ber in
/-- primitives under any tagging, behind pointers and (INTEGER, ENUMERATED, OCTET STRING, character strings) a Value wrapper -/
theorem prim_domain_rt : ∀ (t : Ty) (p : Params) (v : Val), primDomain t p = true → Canon t v →
    ∀ b, marshal t p v = .ok b → b.length < 4611686018427387904 → unmarshal t p b = .ok v
  | .ptr t, p, v, hd, hv, b, hm, hl => by
    cases hv with
    | ptr hv' =>
      have hne := canon_ne_nil hv'
      have e1 : marshal (.ptr t) p v = marshal t p v := by simp [marshal, hne]
      rw [e1] at hm
      rw [unmarshal]
      exact prim_domain_rt t p v (by simpa [primDomain] using hd) hv' b hm hl
  | .bool, p, v, hd, hv, b, hm, _ => by
    cases hv with
    | bool => exact C05_boolean p _ (primParams_tag (by simpa [primDomain] using hd)) b hm
  | .enum, p, v, hd, hv, b, hm, _ => by
    cases hv with
    | enum hi => exact C05_enumerated p _ hi (primParams_tag (by simpa [primDomain] using hd)) b hm
  | .null, p, v, hd, hv, b, hm, _ => by
    cases hv with
    | null => exact C05_null p (primParams_tag (by simpa [primDomain] using hd)) b hm
  | .int w, p, v, hd, hv, b, hm, _ => by
    simp only [primDomain, Bool.and_eq_true, Bool.or_eq_true, beq_iff_eq] at hd
    cases hv with
    | int h64 ht => exact C05_integer w hd.1 p _ (int_range w hd.1 _ h64 ht) (primParams_tag hd.2) b hm
  | .octets, p, v, hd, hv, b, hm, hl => by
    cases hv with
    | octets =>
      rename_i bs
      have hlen : bs.length + 44 < 9223372036854775808 := by
        have hm' := hm
        rw [marshal] at hm'
        simp only [Res.ok.injEq] at hm'
        have := finish_length_ge p false 4 bs
        rw [hm'] at this
        omega
      exact C05_octet_string p bs (primParams_tag (by simpa [primDomain] using hd)) hlen b hm
  | .str d, p, v, hd, hv, b, hm, hl => by
    simp only [primDomain, Bool.and_eq_true, decide_eq_true_eq] at hd
    cases hv with
    | str =>
      rename_i bs
      have hlen : bs.length + 44 < 9223372036854775808 := by
        have hm' := hm
        rw [marshal] at hm'
        simp only [Res.ok.injEq] at hm'
        have := finish_length_ge p false (stringTagOf p d) bs
        rw [hm'] at this
        omega
      exact C05_string d p bs (primParams_tag hd.1) hd.2 hlen b hm
  | .bits, p, v, hd, hv, b, hm, hl => by
    cases hv with
    | bits h1 h2 =>
      rename_i bs n
      have hlen : bs.length + 45 < 9223372036854775808 := by
        have hm' := hm
        rw [marshal] at hm'
        simp only [Res.ok.injEq] at hm'
        have := finish_length_ge p false 3 (((8 - n % 8) % 8) :: bs)
        rw [hm'] at this
        simp only [List.length_cons] at this
        omega
      exact C05_bit_string p bs n (primParams_tag (by simpa [primDomain] using hd)) hlen h1 h2 b hm
  | .wrap (.int w), p, v, hd, hv, b, hm, _ => by
    simp only [primDomain, Bool.and_eq_true, Bool.or_eq_true, beq_iff_eq] at hd
    cases hv with
    | wrap hv' =>
      cases hv' with
      | int h64 ht => exact C05_wrapped_integer w hd.1 p _ (int_range w hd.1 _ h64 ht) (primParams_tag hd.2) b hm
  | .wrap .enum, p, v, hd, hv, b, hm, _ => by
    cases hv with
    | wrap hv' =>
      cases hv' with
      | enum hi => exact C05_wrapped_enumerated p _ hi (primParams_tag (by simpa [primDomain] using hd)) b hm
  | .wrap .octets, p, v, hd, hv, b, hm, hl => by
    cases hv with
    | wrap hv' =>
      cases hv' with
      | octets =>
        rename_i bs
        have hlen : bs.length + 44 < 9223372036854775808 := by
          have hm' := hm
          rw [marshal, marshal] at hm'
          simp only [Res.ok.injEq] at hm'
          have := finish_length_ge p false 4 bs
          rw [hm'] at this
          omega
        exact C05_wrapped_octet_string p bs (primParams_tag (by simpa [primDomain] using hd)) hlen b hm
  | .wrap (.str d), p, v, hd, hv, b, hm, hl => by
    simp only [primDomain, Bool.and_eq_true, decide_eq_true_eq] at hd
    cases hv with
    | wrap hv' =>
      cases hv' with
      | str =>
        rename_i bs
        have hlen : bs.length + 44 < 9223372036854775808 := by
          have hm' := hm
          rw [marshal, marshal] at hm'
          simp only [Res.ok.injEq] at hm'
          have := finish_length_ge p false (stringTagOf p d) bs
          rw [hm'] at this
          omega
        exact C05_wrapped_string d p bs (primParams_tag hd.1) hd.2 hlen b hm
  | .oid, _, _, hd, _, _, _, _ => by simp [primDomain] at hd
  | .slice _, _, _, hd, _, _, _, _ => by simp [primDomain] at hd
  | .choice _, _, _, hd, _, _, _, _ => by simp [primDomain] at hd
  | .struct _, _, _, hd, _, _, _, _ => by simp [primDomain] at hd
  | .unsupported, _, _, hd, _, _, _, _ => by simp [primDomain] at hd
  | .wrap .bool, _, _, hd, _, _, _, _ => by simp [primDomain] at hd
  | .wrap .bits, _, _, hd, _, _, _, _ => by simp [primDomain] at hd
  | .wrap .null, _, _, hd, _, _, _, _ => by simp [primDomain] at hd
  | .wrap .oid, _, _, hd, _, _, _, _ => by simp [primDomain] at hd
  | .wrap (.ptr _), _, _, hd, _, _, _, _ => by simp [primDomain] at hd
  | .wrap (.slice _), _, _, hd, _, _, _, _ => by simp [primDomain] at hd
  | .wrap (.wrap _), _, _, hd, _, _, _, _ => by simp [primDomain] at hd
  | .wrap (.choice _), _, _, hd, _, _, _, _ => by simp [primDomain] at hd
  | .wrap (.struct _), _, _, hd, _, _, _, _ => by simp [primDomain] at hd
  | .wrap .unsupported, _, _, hd, _, _, _, _ => by simp [primDomain] at hd

open Chf.Ber in
/-- C05 on the whole domain the check judges: for every (type, parameters) the driver answers `in` for, every canonical
    value that marshals is brought back by unmarshal -/
theorem C05_domain (t : Ty) (p : Params) (v : Val) (hd : inDomain t p = true) (hv : Canon t v)
    (b : Bytes) (hm : marshal t p v = .ok b) (hl : b.length < 4611686018427387904) : unmarshal t p b = .ok v := by
  unfold inDomain at hd
  by_cases h : (rtTy t && rtParams p) = true
  · simp only [Bool.and_eq_true] at h
    exact C05 t p v h.1 h.2 hv b hm hl
  · have hp : primDomain t p = true := by
      cases h' : (rtTy t && rtParams p) <;> simp_all
    exact prim_domain_rt t p v hp hv b hm hl

open Chf.Ber in
/-- every schema type is in it, under the parameters the CHF uses (none, and "explicit,choice" for the record) -/
theorem C05_domain_schema :
    Gen.schema.all (fun e => inDomain e.2 {} && inDomain e.2 ⟨false, none, true, false, false, 0⟩) = true := by decide +kernel

/-! ### histories of calls: the octets marshal returns are a value, not a view of storage shared with later calls

  `marshal` / `unmarshal` of the model are functions.  The Go procedures are, as long as no call leaves anything behind in a
  package-level variable (Model/CodecState.lean).  That no variable of cdr/asn can be changed by a call is read off the
  source on every run (Gen/AsnGlobals.lean) and checked here by `decide`; the run-time side is the `H` operation of the
  ber stream (results kept across later calls and other goroutines, arguments overwritten, then compared and decoded). -/

open Chf.CodecState in
/-- regenerated from the working tree: nothing outside init assigns to, takes the address of, or calls a method on a
    package-level variable of cdr/asn (reflect.Type handles excepted), in the package or from its importers -/
theorem C05_codec_globals_frozen : allFrozen Gen.asnGlobals = true := by decide

/-- marshal, then unmarshal into a fresh variable: one call of the round trip -/
def roundTrip (i : Ty × Params × Val) : Res Val :=
  match marshal i.1 i.2.1 i.2.2 with
  | .ok b => unmarshal i.1 i.2.1 b
  | .err => .err
  | .panic => .panic

open Chf.CodecState in
/-- C05 over histories: let `impl` be any procedure over the package-level store that respects the regenerated facts and
    answers single calls from the initial store like the model (the correspondence run).  Then in EVERY history of calls —
    whatever was marshalled before — every value of the domain of `C05` that marshals comes back as itself. -/
theorem C05_history {V : Type} (impl : Store V → (Ty × Params × Val) → Res Val × Store V)
    (hr : Respects Gen.asnGlobals impl) (g : Store V) (hcorr : ∀ i, (impl g i).1 = roundTrip i)
    (hist : List (Ty × Params × Val)) (t : Ty) (p : Params) (v : Val)
    (ht : rtTy t = true) (hp : rtParams p = true) (hv : Canon t v)
    (b : Bytes) (hm : marshal t p v = .ok b) (hl : b.length < 4611686018427387904) :
    (impl (after impl g hist) (t, p, v)).1 = .ok v := by
  rw [history_independent C05_codec_globals_frozen hr g hist, hcorr]
  simp only [roundTrip, hm]
  exact C05 t p v ht hp hv b hm hl

open Chf.CodecState in
/-- … and a whole history answers item by item what the single calls answer (the Lean driver's answer to an `H` line) -/
theorem C05_history_answers {V : Type} (impl : Store V → (Ty × Params × Val) → Res Val × Store V)
    (hr : Respects Gen.asnGlobals impl) (g : Store V) (hcorr : ∀ i, (impl g i).1 = roundTrip i)
    (hist : List (Ty × Params × Val)) : answers impl g hist = hist.map roundTrip := by
  rw [answers_eq_map C05_codec_globals_frozen hr g hist]
  exact List.map_congr_left (fun i _ => hcorr i)

end Chf.Props.C05
