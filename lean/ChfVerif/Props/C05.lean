import ChfVerif.Lemmas.BerInt
import ChfVerif.Lemmas.BerSafe
import ChfVerif.Lemmas.BerMarshalSafe
import ChfVerif.Gen.Schema
/-
  C05 — decode(encode(v)) = v.

  Full statement (kept visible; `RoundTrip` below): for every type description, parameters and canonical
  value, if `marshal` returns octets then `unmarshal` of those octets into the same type with the same
  parameters returns that value.

  What is proved here, for all inputs, is the *content* level of that law — the part the two directions
  compute by different arithmetic (C05_partial_*): INTEGER / ENUMERATED contents of every int64,
  BIT STRING contents of every bit length, BOOLEAN, and the error outcome of unsupported constructs in both
  directions.  What is not proved is the structural induction through SEQUENCE / SET / SEQUENCE OF / CHOICE
  member matching (`decodeSeq`, `decodeSet`, `decodeAlt` against `marshalFields`, `marshalAlt`): for that
  part `RoundTrip` is decided per run by the correspondence (model = implementation on every generated
  round trip, so a counterexample of the model is a counterexample of the code) and the DeepEqual oracle.
-/
namespace Chf.Props.C05
open Chf Chf.Ber

/-- the full law, as a proposition about the model -/
def RoundTrip (t : Ty) (p : Params) (v : Val) : Prop :=
  ∀ b, marshal t p v = .ok b → unmarshal t p b = .ok v

/-- INTEGER / ENUMERATED contents: every int64 survives intBytes → parseSigned, any sign and width -/
theorem C05_partial_integer (i : Int) (h : -9223372036854775808 ≤ i ∧ i ≤ 9223372036854775807) :
    parseSigned (intBytes i) = .ok i := parseSigned_intBytes i h

/-- storing the decoded integer back into a field of its own width does not change it -/
theorem C05_partial_int_width (w : Nat) (i : Int) (hw : w = 32 ∨ w = 64)
    (h : -(2 : Int) ^ (w - 1) ≤ i ∧ i < (2 : Int) ^ (w - 1)) : truncInt w i = i := by
  rcases hw with rfl | rfl
  · unfold truncInt
    simp only [show ¬ (32 ≥ 64) by decide, if_false]
    have h1 : (2:Int) ^ (32 - 1) = 2147483648 := by decide
    have h2 : (2:Int) ^ 32 = 4294967296 := by decide
    rw [h1] at h
    simp only [h1, h2]
    split <;> omega
  · unfold truncInt; simp

/-- BIT STRING contents: the unused-bits octet followed by the octets decodes to the same bit length -/
theorem C05_partial_bits (bs : Bytes) (n : Nat) (hn : n ≤ 8 * bs.length) (hn' : 8 * bs.length < n + 8) :
    parseBitString (((8 - n % 8) % 8) :: bs) = .ok (.bits bs n) := by
  unfold parseBitString
  have hu : (8 - n % 8) % 8 ≤ 7 := by omega
  simp only [List.length_cons, Nat.add_eq_zero_iff, Nat.succ_ne_zero, and_false, if_false, idx,
    List.getElem?_cons_zero, from_]
  have h1 : ¬ ((8 - n % 8) % 8 > 7 ∨ (bs.length + 1 = 1 ∧ (8 - n % 8) % 8 ≠ 0)) := by
    intro h; rcases h with h | ⟨h, h'⟩ <;> omega
  rw [if_neg h1]
  simp only [show 1 ≤ bs.length + 1 by omega, if_true, List.drop_succ_cons, List.drop_zero,
    Nat.add_sub_cancel]
  congr 2
  omega

/-- BOOLEAN: the encoder writes FF / 00 and the decoder maps non-zero / zero back -/
theorem C05_partial_bool (x : Bool) : (decide ((if x then 255 else 0 : Nat) ≠ 0)) = x := by
  cases x <;> decide

/-- unsupported constructs are errors in both directions, never a wrong value or a crash -/
theorem C05_oid_marshal (p : Params) (v : Val) : marshal .oid p v = .err := by
  cases v <;> simp [marshal]
theorem C05_no_panic_decode (t : Ty) (p : Params) (b : Bytes) : unmarshal t p b ≠ .panic :=
  unmarshal_no_panic_all.1 t p b
theorem C05_no_panic_encode (t : Ty) (p : Params) (v : Val) (h : optNilable t = true) : marshal t p v ≠ .panic :=
  marshal_no_panic.1 t p v h

/-- non-vacuity of the content lemmas at boundary values -/
example : parseSigned (intBytes (-9223372036854775808)) = .ok (-9223372036854775808) :=
  C05_partial_integer _ (by decide)
example : parseBitString (((8 - 16 % 8) % 8) :: [170, 85]) = .ok (.bits [170, 85] 16) :=
  C05_partial_bits _ _ (by decide) (by decide)

end Chf.Props.C05
