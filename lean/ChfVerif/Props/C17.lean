import ChfVerif.Model.Diameter
import ChfVerif.Gen.Diameter
import ChfVerif.Lemmas.Bits
/-
  C17 — Diameter messages carry every field intact; the dictionaries cover the structures.

  Regenerated tables (Gen/Diameter.lean): every AVP definition of the two dictionaries the components
  load, and for every `avp:` struct tag reachable from the four message structures what the loaded
  dictionary resolves it to.  Discharged by `decide` over the complete tables.
  The basic AVP data formats are modelled (go-diameter is a library) and proved to round-trip over the
  full range of each type; end-to-end field fidelity over a real message serialisation is the `diam`
  correspondence stream.
-/
namespace Chf.Props.C17
open Chf Chf.Diameter

/-- every AVP name used by the message structures is defined in the loaded dictionaries … -/
theorem C17_defined : ∀ t ∈ Chf.Gen.avpTags, t.found = true := by decide +kernel

/-- … with a data type the Go field can carry -/
theorem C17_types_match : ∀ t ∈ Chf.Gen.avpTags, compatible t.goKind t.dictType = true := by decide +kernel

def sameKey (a b : AvpDef) : Bool := a.app == b.app && a.code == b.code && a.vendor == b.vendor

/-- … and a unique code: within the dictionaries the components load, two definitions with the same
    (application, code, vendor) are definitions of the same AVP name -/
theorem C17_codes_unique :
    ∀ a ∈ Chf.Gen.dictAvps, ∀ b ∈ Chf.Gen.dictAvps, sameKey a b = true → a.name = b.name := by decide +kernel

/-- a name is defined with one code only -/
theorem C17_names_unique :
    ∀ a ∈ Chf.Gen.dictAvps, ∀ b ∈ Chf.Gen.dictAvps, a.name = b.name → a.code = b.code ∧ a.type = b.type := by decide +kernel

/-! ### basic data formats round-trip over their full range -/

theorem C17_u32 (x : Nat) (h : x < 4294967296) : decU32 (encU32 x) = some x := by
  unfold encU32 decU32 be32
  rw [Nat.mod_eq_of_lt h]
  simp only [Option.some.injEq]
  exact rd32_be32 h

theorem C17_u64 (x : Nat) (h : x < 18446744073709551616) : decU64 (encU64 x) = some x := by
  unfold encU64 decU64 be64 be32
  rw [Nat.mod_eq_of_lt h]
  simp only [List.cons_append, List.nil_append, Option.some.injEq]
  have h1 : x / 4294967296 % 4294967296 < 4294967296 := Nat.mod_lt _ (by decide)
  have h2 : x % 4294967296 < 4294967296 := Nat.mod_lt _ (by decide)
  rw [rd32_be32 h1, rd32_be32 h2]
  omega

theorem C17_i32 (x : Int) (h : -2147483648 ≤ x ∧ x < 2147483648) : decI32 (encI32 x) = some x := by
  unfold decI32 encI32
  have hlt : (x % 4294967296).toNat < 4294967296 := by omega
  rw [C17_u32 _ hlt]
  simp only [Option.some.injEq]
  split <;> omega

theorem C17_i64 (x : Int) (h : -9223372036854775808 ≤ x ∧ x < 9223372036854775808) :
    decI64 (encI64 x) = some x := by
  unfold decI64 encI64
  have hlt : (x % 18446744073709551616).toNat < 18446744073709551616 := by omega
  rw [C17_u64 _ hlt]
  simp only [Option.some.injEq]
  split <;> omega

end Chf.Props.C17
