import ChfVerif.Props.C01
import ChfVerif.Props.C02
import ChfVerif.Props.C10
import ChfVerif.Props.C12
import ChfVerif.Props.C11
/-
  C09 — concurrent requests behave like some serial order.

  What is a theorem here: the charging model's properties hold for EVERY order in which a scheduler can hand
  a batch of in-flight requests to the per-subscriber lock.  `execSched` lets an arbitrary scheduler pick, again
  and again, any of the requests still pending and run it atomically; `execSched_eq_run` shows the result is the
  sequential run of the picked order, and the order-independent theorems C01 (accounting identity), C10
  (unique references), C12 (status set, rejected requests without effect) and the non-interference theorem
  (a request touches no other subscriber's context) therefore hold for every schedule.

  What is not a theorem: that the Go code's requests really are atomic steps of this kind (the subscriber
  lock covers every access to the subscriber context; global counters are updated atomically).  That is decided
  per run: batches of concurrent requests against the real router built with the race detector, and for every
  batch of up to 5 requests a search over all serial orders for one that the model reproduces exactly (partial).
-/
namespace Chf.Props.C09
open Chf Chf.Charging

/-- a scheduler: at each turn the index (modulo the number still pending) of the request that runs next -/
def pickOrder : List Op → List Nat → List Op
  | [], _ => []
  | pending, [] => pending                       -- scheduler's choices exhausted: the rest in queue order
  | p :: ps, i :: is =>
    let pending := p :: ps
    let k := i % pending.length
    match pending[k]? with
    | some op => op :: pickOrder (pending.eraseIdx k) is
    | none => pending
termination_by pending => pending.length
decreasing_by
  have : i % (p :: ps).length < (p :: ps).length := Nat.mod_lt _ (by simp)
  simp only [List.length_eraseIdx, this, if_true]
  simp

/-- requests run one at a time, each atomically, in the order the scheduler picks -/
def execSched (guard : SplitGuard) (s : State) (pending : List Op) (picks : List Nat) : State :=
  run guard s (pickOrder pending picks)

theorem execSched_eq_run (guard : SplitGuard) (s : State) (pending : List Op) (picks : List Nat) :
    execSched guard s pending picks = run guard s (pickOrder pending picks) := rfl

/-- What modelling a request as ONE atomic step of `execSched` rests on, as far as the source can show it (regenerated tables
    of Gen/LockSites.lean): every Lock() of the request path is released on every path and is not held across a wait for the
    consumer; every access to the state a subscriber's requests share that an HTTP handler can reach is made while the
    subscriber's mutex is held; the global sequence counters are only ever advanced, atomically or under the context lock. -/
def AtomicSteps : Prop :=
  Chf.Gen.lockSites.all Chf.LockDiscipline.LockSite.ok = true ∧
  Chf.Gen.lockSites.all Chf.LockDiscipline.LockSite.prompt = true ∧
  Chf.LockDiscipline.stateAccessOK Chf.Gen.fnFacts Chf.Gen.callFacts = true ∧
  Chf.Gen.counterSites.all (fun c => decide (c.kind ≤ 1)) = true

/-- … and it holds of the working tree (each conjunct by `decide` over the regenerated table) -/
theorem C09_atomic_steps : AtomicSteps :=
  ⟨Chf.Props.C11.sites_ok, Chf.Props.C11.sites_prompt, Chf.Props.C11.state_access_under_lock,
   Chf.Props.C10.counters_only_increase.1⟩

/-- C09 (accounting): whatever the schedule, balance + reservation = initial + credits − rated usage -/
theorem C09_identity_every_schedule (_atomic : AtomicSteps) (guard : SplitGuard) (supi : Bytes) (rg : Int) (hrg : int32 rg)
    (s : State) (pending : List Op) (picks : List Nat)
    (hok : Chf.Props.C01.runOKb guard s (pickOrder pending picks) = true) :
    total (execSched guard s pending picks) supi rg =
      (total s supi rg).map (fun m => m + Chf.Props.C01.netRun guard supi rg s (pickOrder pending picks)) :=
  Chf.Props.C01.C01 guard supi rg hrg (pickOrder pending picks) s hok

/-- C09 (references): whatever the schedule, the next reference handed out is not in use -/
theorem C09_unique_refs_every_schedule (_atomic : AtomicSteps) (guard : SplitGuard) (pending : List Op) (picks : List Nat)
    (accts : Abmf.Store) (tariffs : List Rating.Tariff) (r : Req) (nf : Bytes) (u : Ue)
    (hu : u ∈ (execSched guard { accts := accts, tariffs := tariffs } pending picks).ues) :
    sessionId r.supi nf (execSched guard { accts := accts, tariffs := tariffs } pending picks).sessionSeq ∉ keysOf u :=
  Chf.Props.C10.C10 guard (pickOrder pending picks) accts tariffs r nf u hu

/-- C09 (non-interference): a request of one subscriber leaves every other subscriber's context as it is, so
    requests of different subscribers act on disjoint state (apart from the global counters) -/
theorem C09_noninterference (guard : SplitGuard) (s : State) (op : Op) (supi : Bytes)
    (hne : ∀ sid r, (op = .update sid r ∨ op = .release sid r ∨ op = .create r) → r.supi ≠ supi)
    (hre : ∀ info ueId rgStr, op = .recharge info → splitUnderscore info = [ueId, rgStr] → ueId ≠ supi) :
    findUe (step guard s op).1.ues supi = findUe s.ues supi :=
  Chf.Props.C02.C02_other_subscribers_untouched guard s op supi hne hre

/-- C09 for the working tree: the every-schedule statements with the atomic-step hypothesis discharged from the regenerated
    tables.  When a change to the code breaks one of the tables' obligations, these no longer check. -/
theorem C09_here (guard : SplitGuard) (supi : Bytes) (rg : Int) (hrg : int32 rg) (s : State) (pending : List Op)
    (picks : List Nat) (hok : Chf.Props.C01.runOKb guard s (pickOrder pending picks) = true) :
    total (execSched guard s pending picks) supi rg =
      (total s supi rg).map (fun m => m + Chf.Props.C01.netRun guard supi rg s (pickOrder pending picks)) :=
  C09_identity_every_schedule C09_atomic_steps guard supi rg hrg s pending picks hok

theorem C09_unique_refs_here (guard : SplitGuard) (pending : List Op) (picks : List Nat)
    (accts : Abmf.Store) (tariffs : List Rating.Tariff) (r : Req) (nf : Bytes) (u : Ue)
    (hu : u ∈ (execSched guard { accts := accts, tariffs := tariffs } pending picks).ues) :
    sessionId r.supi nf (execSched guard { accts := accts, tariffs := tariffs } pending picks).sessionSeq ∉ keysOf u :=
  C09_unique_refs_every_schedule C09_atomic_steps guard pending picks accts tariffs r nf u hu

/-- C09 (no data race on subscriber state): under every scheduler, a thread that keeps the lock discipline touches the shared
    state only while it is the holder of the mutex (mutual-exclusion model), and the request path keeps that discipline
    (no chain of unlocked calls from a handler to an unguarded access) -/
theorem C09_no_unsynchronised_access :
    (∀ (prog : Nat → List Chf.LockDiscipline.Ev), (∀ i, Chf.LockDiscipline.guarded false (prog i) = true) →
      ∀ sched, ∀ e ∈ (Chf.LockDiscipline.Sys.run { prog := prog } sched).log, e.2 = some e.1) ∧
    (∀ r g, r ∈ Chf.Gen.fnFacts → g ∈ Chf.Gen.fnFacts → r.root = true → g.relies = true →
      ¬ Chf.LockDiscipline.UnheldPath Chf.Gen.callFacts r.id g.id) :=
  ⟨fun prog hg sched => Chf.Props.C11.C11_mutual_exclusion prog hg sched,
   fun r g hr hg hroot hrel => Chf.Props.C11.C11_no_unguarded_access r g hr hg hroot hrel⟩

/-- C09 (no crash at the API): every request of every schedule is answered 2xx or 4xx -/
theorem C09_status (guard : SplitGuard) (s : State) (op : Op) (h : ∀ a b c, op ≠ .credit a b c) :
    (step guard s op).2.status ∈ [201, 200, 204, 400, 404] :=
  Chf.Props.C12.C12_status_set guard s op h

/-- C09 (no deadlock through the consumer): no lock of the request path is held while the CHF waits for the NF
    consumer, so a consumer that reacts to a notification with a request of its own cannot deadlock with it; and
    every lock taken is released on every path (regenerated lock-site facts, see Props/C11) -/
theorem C09_locks_released_and_not_held_across_consumer :
    Chf.Gen.lockSites.all Chf.LockDiscipline.LockSite.prompt = true ∧
    Chf.Gen.lockSites.all Chf.LockDiscipline.LockSite.ok = true :=
  ⟨Chf.Props.C11.sites_prompt, Chf.Props.C11.sites_ok⟩

/-- non-vacuity: a scheduler that runs the last of three pending requests first -/
example : pickOrder [Op.recharge [1], Op.recharge [2], Op.recharge [3]] [2, 0, 0]
    = [Op.recharge [3], Op.recharge [1], Op.recharge [2]] := by
  simp [pickOrder]

end Chf.Props.C09
