import ChfVerif.Lemmas.CdrFile
import ChfVerif.Model.CodecState
import ChfVerif.Gen.AsnGlobals
/-
  C14 — the CDR file codec round-trips every well-formed file structure.

  `File.WF` is the property's "well-formed": every field within its TS 32.297 width,
  length/count fields equal to the real lengths, an extension octet only where the release
  identifier is 7.  No bound on the number of records or on any length below 2^16.
-/
namespace Chf.Props.C14
open Chf Chf.CdrFile

/-- Decoding(Encoding(f)) = f for every well-formed f. -/
theorem C14 (f : File) (hw : f.WF) : decodeFile (encodeFile f) = some f :=
  decodeFile_encodeFile f hw

/-- In particular decoding a written well-formed file never panics. -/
theorem C14_no_panic (f : File) (hw : f.WF) : decodeFile (encodeFile f) ≠ none := by
  rw [C14 f hw]; simp

/-- encoding is injective on well-formed structures (consequence of the round trip) -/
theorem C14_injective (f g : File) (hf : f.WF) (hg : g.WF) (h : encodeFile f = encodeFile g) : f = g := by
  have := C14 f hf
  rw [h, C14 g hg] at this
  exact (Option.some.inj this).symm

/-! ### call after call, goroutine by goroutine

`Encoding` and `Decoding` are methods of a value; what could make the file written now depend on a file written before (or on
one being written by another goroutine) is a package-level variable of `cdr/cdrFile` — a recycled buffer, a pool, a cached
header.  `Gen.cdrFileGlobals` is the regenerated list of these variables with what the source does to them outside `init`
(the same extractor as for `cdr/asn`); `Model/CodecState.lean` turns "every one of them is frozen" into history and schedule
independence of any procedure that respects the list.  (The stream side: files written by 16 goroutines at once, and a file
written after a write that failed.) -/

open Chf.CodecState in
theorem C14_codec_globals_frozen : allFrozen Gen.cdrFileGlobals = true := by decide

open Chf.CodecState in
/-- any procedure over the package-level store that respects the regenerated facts and, from the initial store, writes and
    reads back like the model brings every well-formed file back after ANY history of earlier calls (well-formed or not,
    successful or failed) -/
theorem C14_history {V : Type} (impl : Store V → File → Option File × Store V)
    (hr : Respects Gen.cdrFileGlobals impl) (g : Store V) (hcorr : ∀ f, (impl g f).1 = decodeFile (encodeFile f))
    (hist : List File) (f : File) (hw : f.WF) :
    (impl (after impl g hist) f).1 = some f := by
  rw [history_independent C14_codec_globals_frozen hr g hist, hcorr]
  exact C14 f hw

open Chf.CodecState in
/-- goroutines: whatever the scheduler does, every writer ends where it ends when it runs alone, and the package-level
    store is untouched -/
theorem C14_schedule {V L : Type} (micro : Micro V L) (hr : RespectsMicro Gen.cdrFileGlobals micro) (g : Store V)
    (sched : List Nat) (ls : Nat → L) :
    (runSched micro g ls sched).2 = g ∧
    ∀ k, (runSched micro g ls sched).1 k = runAlone micro g (ls k) (sched.count k) :=
  schedule_independent C14_codec_globals_frozen hr g sched ls

/-- non-vacuity: a file with only the *low* release identifier at 7, a filter, an extension and a
    record with release identifier 7 is well-formed (this is the shape the unrepaired decoder got wrong). -/
def sample : File :=
  { hdr := { fileLength := 68, headerLength := 58, highRel := 3, highVer := 1, lowRel := 7, lowVer := 31,
             openTs := ⟨12, 31, 23, 59, 1, 5, 30⟩, lastTs := ⟨1, 1, 0, 0, 0, 0, 0⟩,
             numCdrs := 1, fileSeq := 9, closure := 128,
             ip := [0,1,2,3,4,5,6,7,8,9,10,11,12,13,14,15,16,17,18,19], lost := 255,
             lenFilter := 2, filter := [170, 187], lenExt := 3, ext := [1, 2, 3],
             highExt := 0, lowExt := 77 },
    cdrs := [{ hdr := { cdrLength := 5, rel := 7, ver := 2, fmt := 1, ts := 19, relExt := 200 },
               bytes := [48, 3, 128, 1, 9] }] }

example : sample.WF := by
  refine ⟨?_, rfl, ?_⟩
  · simp [sample, FileHeader.WF, TimeStamp.WF, Bytes.ok]
  · intro c hc
    simp [sample] at hc
    subst hc
    simp [Cdr.WF, CdrHeader.WF, Bytes.ok]

example : decodeFile (encodeFile sample) = some sample := by decide

end Chf.Props.C14
