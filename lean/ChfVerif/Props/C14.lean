import ChfVerif.Lemmas.CdrFile
/-
  C14 — the CDR file codec round-trips every well-formed file structure.

  `File.WF` is the property's "well-formed": every field within its TS 32.297 width,
  length/count fields equal to the real lengths, an extension octet only where the release
  identifier is 7.  No bound on the number of records or on any length below 2^16.
-/
namespace Chf.Props.C14
open Chf Chf.CdrFile

/-- Decoding(Encoding(f)) = f for every well-formed f. -/
theorem C14 (f : File) (hw : f.WF) : decodeFile (encodeFile f) = some f :=
  decodeFile_encodeFile f hw

/-- In particular decoding a written well-formed file never panics. -/
theorem C14_no_panic (f : File) (hw : f.WF) : decodeFile (encodeFile f) ≠ none := by
  rw [C14 f hw]; simp

/-- encoding is injective on well-formed structures (consequence of the round trip) -/
theorem C14_injective (f g : File) (hf : f.WF) (hg : g.WF) (h : encodeFile f = encodeFile g) : f = g := by
  have := C14 f hf
  rw [h, C14 g hg] at this
  exact (Option.some.inj this).symm

/-- non-vacuity: a file with only the *low* release identifier at 7, a filter, an extension and a
    record with release identifier 7 is well-formed (this is the shape the unrepaired decoder got wrong). -/
def sample : File :=
  { hdr := { fileLength := 68, headerLength := 58, highRel := 3, highVer := 1, lowRel := 7, lowVer := 31,
             openTs := ⟨12, 31, 23, 59, 1, 5, 30⟩, lastTs := ⟨1, 1, 0, 0, 0, 0, 0⟩,
             numCdrs := 1, fileSeq := 9, closure := 128,
             ip := [0,1,2,3,4,5,6,7,8,9,10,11,12,13,14,15,16,17,18,19], lost := 255,
             lenFilter := 2, filter := [170, 187], lenExt := 3, ext := [1, 2, 3],
             highExt := 0, lowExt := 77 },
    cdrs := [{ hdr := { cdrLength := 5, rel := 7, ver := 2, fmt := 1, ts := 19, relExt := 200 },
               bytes := [48, 3, 128, 1, 9] }] }

example : sample.WF := by
  refine ⟨?_, rfl, ?_⟩
  · simp [sample, FileHeader.WF, TimeStamp.WF, Bytes.ok]
  · intro c hc
    simp [sample] at hc
    subst hc
    simp [Cdr.WF, CdrHeader.WF, Bytes.ok]

example : decodeFile (encodeFile sample) = some sample := by decide

end Chf.Props.C14
