import ChfVerif.Lemmas.BerSafe
/-
  C16 — the BER decoder is safe on arbitrary bytes: an error or a value, never a panic.

  In the model every Go index / slice expression is a partial accessor whose failure is the outcome
  `Res.panic`; the theorems show that outcome is unreachable — for every type description, every field
  parameter set and every octet string, with no bound on lengths or nesting.  Termination ("never loops
  forever") is Lean's acceptance of the definitions: every loop of the decoder is a recursion on a measure
  (type size, remaining elements).
-/
namespace Chf.Props.C16
open Chf Chf.Ber

/-- Unmarshal never panics and never reads outside the octets it was given. -/
theorem C16 (t : Ty) (p : Params) (b : Bytes) : unmarshal t p b ≠ .panic :=
  unmarshal_no_panic_all.1 t p b

/-- so it returns a value or an error -/
theorem C16_value_or_error (t : Ty) (p : Params) (b : Bytes) :
    (∃ v, unmarshal t p b = .ok v) ∨ unmarshal t p b = .err := by
  cases h : unmarshal t p b with
  | ok v => left; exact ⟨v, rfl⟩
  | err => right; rfl
  | panic => exact absurd h (C16 t p b)

/-- the header parser is safe on its own, and an accepted header lies inside the input -/
theorem C16_header (b : Bytes) :
    parseTagAndLength b ≠ .panic ∧ ∀ t, parseTagAndLength b = .ok t → 1 ≤ t.off ∧ t.off ≤ b.length :=
  parseTagAndLength_spec b

/-- empty input is an error for the header parser … -/
theorem C16_empty_header : (parseTagAndLength []).isErr = true := by decide

/-- … truncated long-form lengths, indefinite lengths, lengths of more than 8 octets, and lengths that are
    negative as int64 or exceed the input are errors -/
example : (parseTagAndLength [2, 131, 1]).isErr = true := by decide        -- 02 83 01
example : (parseTagAndLength [2, 128]).isErr = true := by decide           -- indefinite form
example : (parseTagAndLength [2, 137, 0, 0, 0, 0, 0, 0, 0, 0, 1, 7]).isErr = true := by decide
example : (parseTagAndLength [2, 136, 255, 255, 255, 255, 255, 255, 255, 255, 7]).isErr = true := by decide
example : (parseTagAndLength [2, 132, 0, 0, 1, 0, 7]).isErr = true := by decide

/-- empty input is an error for every target type -/
theorem C16_empty (t : Ty) (p : Params) : enter t p [] = .err := by
  unfold enter parseTagAndLength; simp

/-- a declared length beyond the input is an error for every target type -/
theorem C16_overlong (t : Ty) (p : Params) (b : Bytes) (tal : Tal)
    (hp : parseTagAndLength b = .ok tal) (hlong : tal.off + tal.len > b.length) : enter t p b = .err := by
  unfold enter; rw [hp]; simp [hlong]

/-- zero-length primitives are errors -/
theorem C16_zero_length_bits : (parseBitString []).isErr = true := by decide
theorem C16_zero_length_int : (parseSigned []).isErr = true := by decide
example : (parseBitString [8, 1]).isErr = true := by decide     -- unused-bits count above 7

/-- a wrongly tagged element is never accepted by the entry checks -/
theorem C16_wrong_tag (t : Ty) (p : Params) (b : Bytes) (tal : Tal)
    (hp : parseTagAndLength b = .ok tal) (hbad : tagOk t p tal = false) : enter t p b = .err := by
  unfold enter
  rw [hp]
  simp only
  split
  · rfl
  · simp [hbad]

end Chf.Props.C16
