import ChfVerif.Lemmas.BerSafe
import ChfVerif.Gen.AsnGlobals
/-
  C16 — the BER decoder is safe on arbitrary bytes: an error or a value, never a panic.

  In the model every Go index / slice expression is a partial accessor whose failure is the outcome
  `Res.panic`; the theorems show that outcome is unreachable — for every type description, every field
  parameter set and every octet string, with no bound on lengths or nesting.  Termination ("never loops
  forever") is Lean's acceptance of the definitions: every loop of the decoder is a recursion on a measure
  (type size, remaining elements).
-/
namespace Chf.Props.C16
open Chf Chf.Ber

/-- Unmarshal never panics and never reads outside the octets it was given. -/
theorem C16 (t : Ty) (p : Params) (b : Bytes) : unmarshal t p b ≠ .panic :=
  unmarshal_no_panic_all.1 t p b

/-- so it returns a value or an error -/
theorem C16_value_or_error (t : Ty) (p : Params) (b : Bytes) :
    (∃ v, unmarshal t p b = .ok v) ∨ unmarshal t p b = .err := by
  cases h : unmarshal t p b with
  | ok v => left; exact ⟨v, rfl⟩
  | err => right; rfl
  | panic => exact absurd h (C16 t p b)

/-- the header parser is safe on its own, and an accepted header lies inside the input -/
theorem C16_header (b : Bytes) :
    parseTagAndLength b ≠ .panic ∧ ∀ t, parseTagAndLength b = .ok t → 1 ≤ t.off ∧ t.off ≤ b.length :=
  parseTagAndLength_spec b

/-- empty input is an error for the header parser … -/
theorem C16_empty_header : (parseTagAndLength []).isErr = true := by decide

/-- … truncated long-form lengths, indefinite lengths, lengths of more than 8 octets, and lengths that are
    negative as int64 or exceed the input are errors -/
example : (parseTagAndLength [2, 131, 1]).isErr = true := by decide        -- 02 83 01
example : (parseTagAndLength [2, 128]).isErr = true := by decide           -- indefinite form
example : (parseTagAndLength [2, 137, 0, 0, 0, 0, 0, 0, 0, 0, 1, 7]).isErr = true := by decide
example : (parseTagAndLength [2, 136, 255, 255, 255, 255, 255, 255, 255, 255, 7]).isErr = true := by decide
example : (parseTagAndLength [2, 132, 0, 0, 1, 0, 7]).isErr = true := by decide

/-- empty input is an error for every target type -/
theorem C16_empty (t : Ty) (p : Params) : enter t p [] = .err := by
  unfold enter parseTagAndLength; simp

/-- a declared length beyond the input is an error for every target type -/
theorem C16_overlong (t : Ty) (p : Params) (b : Bytes) (tal : Tal)
    (hp : parseTagAndLength b = .ok tal) (hlong : tal.off + tal.len > b.length) : enter t p b = .err := by
  unfold enter; rw [hp]; simp [hlong]

/-- zero-length primitives are errors -/
theorem C16_zero_length_bits : (parseBitString []).isErr = true := by decide
theorem C16_zero_length_int : (parseSigned []).isErr = true := by decide
example : (parseBitString [8, 1]).isErr = true := by decide     -- unused-bits count above 7

/-- a wrongly tagged element is never accepted by the entry checks -/
theorem C16_wrong_tag (t : Ty) (p : Params) (b : Bytes) (tal : Tal)
    (hp : parseTagAndLength b = .ok tal) (hbad : tagOk t p tal = false) : enter t p b = .err := by
  unfold enter
  rw [hp]
  simp only
  split
  · rfl
  · simp [hbad]

/-! ### every call, in every history and under every interleaving

  `C16` is about a function of (type, parameters, octets).  The Go decoder is that function as long as no call reads
  or leaves anything in a package-level variable that an earlier or a concurrent call wrote (a cache keyed by type, say:
  besides changing answers, an unsynchronised one aborts the process — neither a value nor an error).  The facts are
  regenerated from the source (Gen/AsnGlobals.lean); the run-time side is the `V` operation of the ber stream (several
  goroutines decoding at once into types the process has not seen, twice). -/

open Chf.CodecState in
theorem C16_codec_globals_frozen : allFrozen Gen.asnGlobals = true := by decide

open Chf.CodecState in
/-- any procedure over the package-level store that respects the regenerated facts and answers single calls from the
    initial store like the model returns a value or an error — never a panic — after ANY history of earlier calls, and
    answers a repeated call as it answered it the first time -/
theorem C16_history {V : Type} (impl : Store V → (Ty × Params × Bytes) → Res Val × Store V)
    (hr : Respects Gen.asnGlobals impl) (g : Store V) (hcorr : ∀ i, (impl g i).1 = unmarshal i.1 i.2.1 i.2.2)
    (hist : List (Ty × Params × Bytes)) (t : Ty) (p : Params) (b : Bytes) :
    (impl (after impl g hist) (t, p, b)).1 ≠ .panic ∧
    (impl (after impl g hist) (t, p, b)).1 = (impl g (t, p, b)).1 := by
  rw [history_independent C16_codec_globals_frozen hr g hist]
  exact ⟨by rw [hcorr]; exact C16 t p b, rfl⟩

open Chf.CodecState in
/-- goroutines: whatever the scheduler does, every goroutine ends where it ends when it runs alone, and the package-level
    store is untouched — concurrent decodings answer what the same decodings answer one after the other -/
theorem C16_schedule {V L : Type} (micro : Micro V L) (hr : RespectsMicro Gen.asnGlobals micro) (g : Store V)
    (sched : List Nat) (ls : Nat → L) :
    (runSched micro g ls sched).2 = g ∧
    ∀ k, (runSched micro g ls sched).1 k = runAlone micro g (ls k) (sched.count k) :=
  schedule_independent C16_codec_globals_frozen hr g sched ls

end Chf.Props.C16
