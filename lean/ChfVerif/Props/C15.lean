import ChfVerif.Lemmas.TS32297
import ChfVerif.Props.C14
import ChfVerif.Gen.CdrFileFacts
/-
  C15 — the bytes written for a CDR file follow the TS 32.297 clause 6.1 layout: an
  independent reader written from the specification (Spec/TS32297.lean: cursor-based, div/mod
  arithmetic, no definition shared with the encoder model) recovers every field that was
  written, consumes exactly `numCdrs` records and leaves no octet over.
-/
namespace Chf.Props.C15
open Chf Chf.CdrFile

/-- the independent reader recovers the structure from the written bytes -/
theorem C15 (f : File) (hw : f.WF) : TS32297.read (encodeFile f) = some f :=
  TS32297.read_encodeFile f hw

/-- the header occupies 52 octets plus filter, private extension and one octet per release
    identifier equal to 7 (extension octets are present exactly then) -/
theorem C15_header_length (h : FileHeader) (hw : h.WF) :
    (encodeHeader h).length = 52 + h.lenFilter + h.lenExt + extCount h.highRel + extCount h.lowRel := by
  have hip : h.ip.length = 20 := hw.2.2.2.2.2.2.2.2.2.2.2.1
  have h16 : h.filter.length = h.lenFilter := hw.2.2.2.2.2.2.2.2.2.2.2.2.2.2.2.1
  have h19 : h.ext.length = h.lenExt := hw.2.2.2.2.2.2.2.2.2.2.2.2.2.2.2.2.2.2.1
  rw [encodeHeader_length h hip, h16, h19]

/-- each record is a 4-octet header (5 when its release identifier is 7) followed by exactly
    `cdrLength` payload octets; the file is the header followed by the records -/
theorem C15_file_length (f : File) (hw : f.WF) :
    (encodeFile f).length =
      52 + f.hdr.lenFilter + f.hdr.lenExt + extCount f.hdr.highRel + extCount f.hdr.lowRel +
        cdrsLength f.cdrs := by
  unfold encodeFile
  rw [List.length_append, C15_header_length f.hdr hw.1, encodeCdrs_length]

/-- big-endian length fields at octets 1..8 -/
theorem C15_prefix (f : File) :
    (encodeFile f).take 8 = be32 f.hdr.fileLength ++ be32 f.hdr.headerLength := by
  simp [encodeFile, encodeHeader, fixedPart, be32]

/-- high-then-low order of the release-identifier extension octets, directly after the private extension -/
theorem C15_ext_order (h : FileHeader) (hh : h.highRel = 7) (hl : h.lowRel = 7) :
    encodeHeader h = fixedPart h ++ h.filter ++ be16 h.lenExt ++ h.ext ++ [h.highExt, h.lowExt] := by
  simp [encodeHeader, extPart, hh, hl]

/-! ### the file on disk -/

/-- when the destination is opened so that its old content is discarded, the file after `Encoding` is the
    encoding and nothing else — whatever the destination held before -/
theorem C15_on_disk (m : WriteMode) (hm : m.truncates = true) (old : Option Bytes) (f : File) :
    encodingOnto m old f = encodeFile f := by
  simp [encodingOnto, writeOver, hm]

/-- the code at hand opens its destination that way, in one place (regenerated from cdrFile.go) -/
theorem C15_encoding_truncates :
    Chf.Gen.encodingWrites.length = 1 ∧ Chf.Gen.encodingWrite.truncates = true := by decide

/-- C15 for the file as it is on disk: the independent reader recovers the structure from the destination
    file, for every previous content of that file -/
theorem C15_file_on_disk (old : Option Bytes) (f : File) (hw : f.WF) :
    TS32297.read (encodingOnto Chf.Gen.encodingWrite old f) = some f := by
  rw [C15_on_disk _ C15_encoding_truncates.2]
  exact C15 f hw

/-- … and it has exactly the length the layout prescribes -/
theorem C15_disk_length (old : Option Bytes) (f : File) (hw : f.WF) :
    (encodingOnto Chf.Gen.encodingWrite old f).length =
      52 + f.hdr.lenFilter + f.hdr.lenExt + extCount f.hdr.highRel + extCount f.hdr.lowRel +
        cdrsLength f.cdrs := by
  rw [C15_on_disk _ C15_encoding_truncates.2]
  exact C15_file_length f hw

/-- the hypothesis is needed: a destination opened without truncation (and not for appending) keeps the tail of a
    longer previous file, so the file on disk is longer than the layout prescribes and is not the encoding -/
theorem C15_no_truncate_stale (old : Bytes) (f : File) (hlong : (encodeFile f).length < old.length) :
    (encodingOnto ⟨false, false⟩ (some old) f).length = old.length ∧
    encodingOnto ⟨false, false⟩ (some old) f ≠ encodeFile f := by
  have hlen : (encodingOnto ⟨false, false⟩ (some old) f).length = old.length := by
    simp only [encodingOnto, writeOver, Option.getD_some, Bool.false_eq_true, if_false,
      List.length_append, List.length_drop]
    omega
  refine ⟨hlen, ?_⟩
  intro h
  rw [h] at hlen
  omega

/-- appending is no better: the new octets come after the old ones -/
theorem C15_append_stale (old : Bytes) (f : File) (hne : old ≠ []) :
    encodingOnto ⟨false, true⟩ (some old) f ≠ encodeFile f := by
  intro h
  have : (encodingOnto ⟨false, true⟩ (some old) f).length = old.length + (encodeFile f).length := by
    simp [encodingOnto, writeOver]
  rw [h] at this
  have : old.length = 0 := by omega
  exact hne (List.eq_nil_of_length_eq_zero this)

example : TS32297.read (encodeFile C14.sample) = some C14.sample := by decide

open Chf.CodecState in
/-- the octets written for a well-formed file are read back by the independent reader after ANY history of earlier writes:
    with the regenerated facts about `cdr/cdrFile`'s package-level variables (`C14_codec_globals_frozen`) no earlier call —
    completed or failed — can leave anything behind for the next one -/
theorem C15_history {V : Type} (impl : Store V → File → Bytes × Store V)
    (hr : Respects Gen.cdrFileGlobals impl) (g : Store V) (hcorr : ∀ f, (impl g f).1 = encodeFile f)
    (hist : List File) (f : File) (hw : f.WF) :
    TS32297.read (impl (after impl g hist) f).1 = some f := by
  rw [history_independent C14.C14_codec_globals_frozen hr g hist, hcorr]
  exact C15 f hw

end Chf.Props.C15
