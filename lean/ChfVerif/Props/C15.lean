import ChfVerif.Lemmas.TS32297
import ChfVerif.Props.C14
/-
  C15 — the bytes written for a CDR file follow the TS 32.297 clause 6.1 layout: an
  independent reader written from the specification (Spec/TS32297.lean: cursor-based, div/mod
  arithmetic, no definition shared with the encoder model) recovers every field that was
  written, consumes exactly `numCdrs` records and leaves no octet over.
-/
namespace Chf.Props.C15
open Chf Chf.CdrFile

/-- the independent reader recovers the structure from the written bytes -/
theorem C15 (f : File) (hw : f.WF) : TS32297.read (encodeFile f) = some f :=
  TS32297.read_encodeFile f hw

/-- the header occupies 52 octets plus filter, private extension and one octet per release
    identifier equal to 7 (extension octets are present exactly then) -/
theorem C15_header_length (h : FileHeader) (hw : h.WF) :
    (encodeHeader h).length = 52 + h.lenFilter + h.lenExt + extCount h.highRel + extCount h.lowRel := by
  have hip : h.ip.length = 20 := hw.2.2.2.2.2.2.2.2.2.2.2.1
  have h16 : h.filter.length = h.lenFilter := hw.2.2.2.2.2.2.2.2.2.2.2.2.2.2.2.1
  have h19 : h.ext.length = h.lenExt := hw.2.2.2.2.2.2.2.2.2.2.2.2.2.2.2.2.2.2.1
  rw [encodeHeader_length h hip, h16, h19]

/-- each record is a 4-octet header (5 when its release identifier is 7) followed by exactly
    `cdrLength` payload octets; the file is the header followed by the records -/
theorem C15_file_length (f : File) (hw : f.WF) :
    (encodeFile f).length =
      52 + f.hdr.lenFilter + f.hdr.lenExt + extCount f.hdr.highRel + extCount f.hdr.lowRel +
        cdrsLength f.cdrs := by
  unfold encodeFile
  rw [List.length_append, C15_header_length f.hdr hw.1, encodeCdrs_length]

/-- big-endian length fields at octets 1..8 -/
theorem C15_prefix (f : File) :
    (encodeFile f).take 8 = be32 f.hdr.fileLength ++ be32 f.hdr.headerLength := by
  simp [encodeFile, encodeHeader, fixedPart, be32]

/-- high-then-low order of the release-identifier extension octets, directly after the private extension -/
theorem C15_ext_order (h : FileHeader) (hh : h.highRel = 7) (hl : h.lowRel = 7) :
    encodeHeader h = fixedPart h ++ h.filter ++ be16 h.lenExt ++ h.ext ++ [h.highExt, h.lowExt] := by
  simp [encodeHeader, extPart, hh, hl]

example : TS32297.read (encodeFile C14.sample) = some C14.sample := by decide

end Chf.Props.C15
