import ChfVerif.Lemmas.ChargingSids
import ChfVerif.Lemmas.ChargingRecords
import ChfVerif.Lemmas.LockDiscipline
import ChfVerif.Gen.LockSites
/-
  C10 — charging-session references are unique and keep designating their session.

  A reference is  subscriber id ++ consumer name ++ "-" ++ decimal(sequence number); every accepted
  create takes the next sequence number.  `SidsBelow` (every live reference carries a sequence number
  below the current one) is an invariant of every history, hence a new reference differs from the
  reference of every session of every subscriber that has not been released — whatever the subscriber
  identifiers and consumer names (digits, empty names, one SUPI a prefix of another).
-/
namespace Chf.Props.C10
open Chf Chf.Charging

/-- two references built from different sequence numbers differ, for arbitrary names -/
theorem C10_distinct (supi1 nf1 supi2 nf2 : Bytes) (n1 n2 : Nat) (h : n1 ≠ n2) :
    sessionId supi1 nf1 n1 ≠ sessionId supi2 nf2 n2 :=
  fun he => h (sessionId_seq_injective he)

/-- the adversarial names of the property: "imsi-1"+"a1" vs "imsi-1"+"a" no longer collide -/
example : sessionId [105,109,115,105,45,49] [97,49] 0 ≠ sessionId [105,109,115,105,45,49] [97] 10 :=
  C10_distinct _ _ _ _ 0 10 (by decide)

theorem SidsBelow_init (accts : Abmf.Store) (tariffs : List Rating.Tariff) :
    SidsBelow { accts := accts, tariffs := tariffs } := by
  intro u hu; simp at hu

/-- the invariant is preserved by every operation -/
theorem SidsBelow_step (guard : SplitGuard) (s : State) (op : Op) (h : SidsBelow s) :
    SidsBelow (step guard s op).1 := by
  rcases step_sids guard s op with ⟨h1, h2⟩ | ⟨ue, ue', hmem, hues, hle, hkeys⟩
  · intro u hu sid hs
    rw [h1] at hu; rw [h2]
    exact h u hu sid hs
  · intro u hu sid hs
    rw [hues] at hu
    rcases mem_putUe hu with hu' | hu'
    · subst hu'
      rcases hkeys sid hs with hk | ⟨a, b, hk, hseq⟩
      · rcases hmem with hm | hm
        · exact SidBelow_mono (h ue hm sid hk) hle
        · simp [keysOf, hm] at hk
      · right; exact ⟨a, b, s.sessionSeq, hk, by omega⟩
    · exact SidBelow_mono (h u hu' sid hs) hle

theorem SidsBelow_run (guard : SplitGuard) (ops : List Op) : ∀ s, SidsBelow s → SidsBelow (run guard s ops) := by
  induction ops with
  | nil => intro s h; exact h
  | cons op r ih => intro s h; exact ih _ (SidsBelow_step guard s op h)

/-- C10 (uniqueness): in every state reachable by any history, the reference returned by an accepted
    session-based create differs from the reference of every live (not released) session of every
    subscriber. -/
theorem C10_fresh (guard : SplitGuard) (s : State) (hinv : SidsBelow s) (r : Req) (nf : Bytes)
    (u : Ue) (hu : u ∈ s.ues) : sessionId r.supi nf s.sessionSeq ∉ keysOf u := by
  intro hmem
  rcases hinv u hu _ hmem with h | ⟨a, b, k, h1, h2⟩
  · exact sessionId_ne_nil _ _ _ h
  · have := sessionId_seq_injective h1
    omega

theorem C10 (guard : SplitGuard) (ops : List Op) (accts : Abmf.Store) (tariffs : List Rating.Tariff)
    (r : Req) (nf : Bytes) (u : Ue)
    (hu : u ∈ (run guard { accts := accts, tariffs := tariffs } ops).ues) :
    sessionId r.supi nf (run guard { accts := accts, tariffs := tariffs } ops).sessionSeq ∉ keysOf u :=
  C10_fresh guard _ (SidsBelow_run guard ops _ (SidsBelow_init accts tariffs)) r nf u hu

/-- the sequence number never decreases, and an accepted session-based create increases it -/
theorem C10_counter_monotone (guard : SplitGuard) (s : State) (op : Op) :
    s.sessionSeq ≤ (step guard s op).1.sessionSeq := by
  rcases step_sids guard s op with ⟨_, h2⟩ | ⟨_, _, _, _, hle, _⟩
  · omega
  · exact hle

/-! ### the sequence number of a refused create is not handed back -/

/-- a session-based create that OpenCDR refuses (400) has used up its sequence number: the counter does not go back.
    (Another create may have taken the next number in the meantime; see `C10_give_back_collides`.) -/
theorem C10_refused_create_keeps_number (guard : SplitGuard) (s : State) (r : Req) (nf : Bytes) (hnf : r.nf = some nf)
    (hp : supiAccepted r.supi = true) (hb : r.bad = true) (hone : r.one = false) :
    (step guard s (.create r)).2.status = 400 ∧ (step guard s (.create r)).1.sessionSeq = s.sessionSeq + 1 := by
  show (create s r).2.status = 400 ∧ (create s r).1.sessionSeq = s.sessionSeq + 1
  rw [create_bad s r nf hnf hp hb]
  simp [hone]

/-- regenerated fact (harness/cmd/stateaccess.go, `decide`): the only statements of the request path that change a global
    sequence counter are `atomic.AddUint64(&c, 1)` and `c++` - no decrement, no store, no other delta -/
theorem counters_only_increase :
    Chf.Gen.counterSites.all (fun c => decide (c.kind ≤ 1)) = true ∧
    Chf.Gen.counterSites.any (fun c => c.field == "ChargingSessionSequence") = true := by decide

/-- C10 (creates in flight together): whatever the order in which concurrent creates take their numbers, as long as no
    number is ever handed back, no number - hence no reference - is handed out twice -/
theorem C10_numbers_distinct_every_interleaving (evs : List Chf.LockDiscipline.CEv)
    (h : evs.all (· == .take) = true) : ((({} : Chf.LockDiscipline.CSt).run evs).taken).Nodup :=
  (Chf.LockDiscipline.counter_run evs h {} (by intro n hn; simp at hn) (by simp)).2

/-- … and handing back is what breaks it: create X takes 0, create B (another subscriber) takes 1, X is refused and hands
    its number back, create C takes 1 again - B's and C's references collide -/
theorem C10_give_back_collides :
    ¬ ((({} : Chf.LockDiscipline.CSt).run [.take, .take, .giveBack, .take]).taken).Nodup := by decide

/-! ### the reference can be named: it is one path segment

  "Until released, that reference designates that session": the reference is the last element of the session's resource URI
  (`…/chargingdata/<reference>/update`), and the router splits the decoded path at `/`.  A reference with a path separator in it
  could never be named by a request (the defect repaired in a81e873 `fix: a consumer name with a path separator cannot open a session`:
  `nFName` "a/b" was answered 201 and every update and release of that session 404).  An accepted SUPI has no separator
  (`supiAccepted`), an accepted consumer name has none (such creates are refused; the driver hands them to the model as requests
  without consumer identification), and neither `-` nor a decimal digit is one. -/

theorem decimalFuel_no_slash (f n : Nat) : (47 : Nat) ∉ decimalFuel f n := by
  induction f generalizing n with
  | zero => simp only [decimalFuel, List.mem_singleton]; omega
  | succ f ih =>
    unfold decimalFuel
    split
    · simp only [List.mem_singleton]; omega
    · simp only [List.mem_append, List.mem_singleton, not_or]
      exact ⟨ih _, by omega⟩

theorem C10_reference_is_one_path_segment (supi nf : Bytes) (n : Nat) (hs : (47 : Nat) ∉ supi) (hn : (47 : Nat) ∉ nf) :
    (47 : Nat) ∉ sessionId supi nf n := by
  unfold sessionId decimal
  simp only [List.mem_append, List.mem_singleton, not_or]
  exact ⟨⟨⟨hs, hn⟩, by decide⟩, decimalFuel_no_slash _ _⟩

/-- … in particular for every SUPI the CHF accepts -/
theorem C10_accepted_supi_has_no_separator (supi : Bytes) (h : supiAccepted supi = true) : (47 : Nat) ∉ supi := by
  unfold supiAccepted at h
  simp only [Bool.and_eq_true, Bool.not_eq_true', decide_eq_true_eq] at h
  intro hm
  have : supi.contains 47 = true := List.contains_iff_mem.mpr hm
  rw [h.1.1.1.2] at this
  exact Bool.noConfusion this

/-! ### … and it can be handed to the consumer: no control character

  The reference travels in the `Location` header of the 201 answer. A header value with a control character is dropped by the
  HTTP/2 transport (the consumer gets a 201 without any reference) and mangled or rejected by HTTP/1.1 clients: a session whose
  SUPI or consumer name contains one could never be named (`nFName` "smf\n1" was answered 201). Such creates are refused. -/

theorem decimalFuel_no_control (f n : Nat) : (decimalFuel f n).any isControl = false := by
  induction f generalizing n with
  | zero =>
    simp only [decimalFuel, List.any_cons, List.any_nil, Bool.or_false, isControl, Bool.or_eq_false_iff,
      decide_eq_false_iff_not, beq_eq_false_iff_ne]
    omega
  | succ f ih =>
    unfold decimalFuel
    split
    · simp only [List.any_cons, List.any_nil, Bool.or_false, isControl, Bool.or_eq_false_iff, decide_eq_false_iff_not,
        beq_eq_false_iff_ne]
      omega
    · rw [List.any_append, ih]
      simp only [List.any_cons, List.any_nil, Bool.or_false, Bool.false_or, isControl, Bool.or_eq_false_iff,
        decide_eq_false_iff_not, beq_eq_false_iff_ne]
      omega

theorem C10_reference_has_no_control_character (supi nf : Bytes) (n : Nat) (hs : supi.any isControl = false)
    (hn : nf.any isControl = false) : (sessionId supi nf n).any isControl = false := by
  unfold sessionId decimal
  rw [List.any_append, List.any_append, List.any_append, hs, hn, decimalFuel_no_control]
  decide

/-- a SUPI with a control character is refused (400, nothing changes) -/
theorem C10_supi_with_control_character_refused (guard : SplitGuard) (s : State) (r : Req) (h : r.supi.any isControl = true) :
    step guard s (.create r) = (s, { status := 400 }) := by
  have hrej : supiAccepted r.supi = false := by
    unfold supiAccepted
    rw [h]; simp
  show create s r = _
  exact create_rej s r (Or.inr hrej)

theorem C10_accepted_supi_has_no_control_character (supi : Bytes) (h : supiAccepted supi = true) :
    supi.any isControl = false := by
  unfold supiAccepted at h
  simp only [Bool.and_eq_true, Bool.not_eq_true'] at h
  exact h.2

end Chf.Props.C10
