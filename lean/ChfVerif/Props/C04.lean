import ChfVerif.Lemmas.BerEncode
import ChfVerif.Lemmas.BerMarshalSafe
import ChfVerif.Lemmas.BerInt
import ChfVerif.Gen.Schema
import ChfVerif.Lemmas.X690WellFormed
import ChfVerif.Lemmas.BerMarshalErr
/-
  C04 — the BER encoder's output is that of an independent X.690 encoder, and marshalling never panics.

  `Model/Ber.lean: marshal` mirrors cdr/asn/ber_marshal.go (makeField, appendTagAndLen, int64Encoder,
  bitStringEncoder) routine by routine, including the uint64 arithmetic of appendTagAndLen.
  `Spec/X690.lean: encode` is written from the text of X.690 and shares no encoding routine with it.
  The theorems are for every type description, every field-parameter set and every value, with no bound on
  lengths, nesting, tag numbers (below 2^64, the codec's uint64) or integer magnitude (int64).

  The well-formedness clauses of the statement (minimal INTEGER contents, BOOLEAN 00/FF, BIT STRING unused
  bits, class/constructed bits, minimal tag-number and length octets, children summing to the parent's
  length) are what the independent walker `X690.wellFormed` checks; `C04_wellformed` proves that every output
  of the encoder is accepted by it (via `encode_wf_all`: every output of the reference encoder is one
  well-formed element, by mutual induction), for values whose integers are int64, whose octet-less BIT STRINGs
  have bit length 0 mod 8, and types whose character-string tags are not those of BOOLEAN/INTEGER/BIT STRING/
  NULL/ENUMERATED (`strOK`, checked for the whole regenerated schema by decide).
-/
namespace Chf.Props.C04
open Chf Chf.Ber Chf.X690

/-- every one of the regenerated CDR schema types has only nil-able OPTIONAL members (so reflect's IsNil
    cannot panic) and only tag numbers that fit the codec's uint64 -/
theorem schema_ok : Gen.schema.all (fun e => optNilable e.2 && tagsOK e.2) = true := by decide +kernel

/-- C04 (bytes): whatever the encoder returns is exactly the reference encoding. -/
theorem C04 (t : Ty) (p : Params) (v : Val) (b : Bytes)
    (ht : tagsOK t = true) (hp : paramsOK p = true) (hv : valOK v = true)
    (hl : b.length < 18446744073709551616)
    (hm : marshal t p v = .ok b) : encode t p v = some b :=
  marshal_eq_encode_all.1 t p v b ht hp hv hm hl

/-- C04 (totality): marshalling a value of a type whose OPTIONAL members are nil-able returns bytes or an
    error; it never panics. -/
theorem C04_no_panic (t : Ty) (p : Params) (v : Val) (ht : optNilable t = true) : marshal t p v ≠ .panic :=
  marshal_no_panic.1 t p v ht

/-- both, for every CDR schema type of the working tree -/
theorem C04_schema (name : String) (t : Ty) (hmem : (name, t) ∈ Gen.schema) (p : Params) (v : Val)
    (hp : paramsOK p = true) (hv : valOK v = true) :
    marshal t p v ≠ .panic ∧
    ∀ b, b.length < 18446744073709551616 → marshal t p v = .ok b → encode t p v = some b := by
  have h := List.all_eq_true.mp schema_ok (name, t) hmem
  simp only [Bool.and_eq_true] at h
  exact ⟨C04_no_panic t p v h.1, fun b hl hm => C04 t p v b h.2 hp hv hl hm⟩

/-- C04 (well-formedness): whatever the encoder returns is one well-formed definite-length BER element -/
theorem C04_wellformed (t : Ty) (p : Params) (v : Val) (b : Bytes)
    (ht : tagsOK t = true) (hs : strOK t = true) (hp : paramsOK p = true) (hsp : strParamOK p = true)
    (hv : valOK v = true) (hb : bitsOK v = true) (hl : b.length < 18446744073709551616)
    (hm : marshal t p v = .ok b) : wellFormed b = true := by
  have he := C04 t p v b ht hp hv hl hm
  obtain ⟨_, _, _, _, hwf⟩ := encode_wf_all.1 t p v b ht hs hp hsp hv hb he hl
  exact hwf (b.length + 1) (Nat.le_succ _)

/-- the character-string tags of all regenerated schema types are free of the walker's primitive checks -/
theorem schema_strOK : Gen.schema.all (fun e => strOK e.2) = true := by decide +kernel

/-- INTEGER / ENUMERATED contents are the minimal two's-complement octets -/
theorem C04_integer_minimal (i : Int) (h : -9223372036854775808 ≤ i ∧ i ≤ 9223372036854775807) :
    minimalInt (intBytes i) = true ∧ intBytes i = integerContents i :=
  ⟨minimalInt_intBytes i h, intBytes_eq i h⟩

/-- BOOLEAN contents are one octet, 00 or FF -/
theorem C04_bool (p : Params) (x : Bool) :
    marshal .bool p (.bool x) = .ok (finish p false 1 [if x then 255 else 0]) := by rw [marshal]

/-- the BIT STRING unused-bits octet is within 0..7 and zero for byte-aligned lengths -/
theorem C04_bits_unused (n : Nat) : (8 - n % 8) % 8 ≤ 7 ∧ (n % 8 = 0 → (8 - n % 8) % 8 = 0) := by omega

/-- absent OPTIONAL members are omitted -/
theorem C04_optional_omitted (p : Params) (t : Ty) (r : Fields) (vs : Vals)
    (ho : p.optional = true) (hn : nilable t = true) :
    marshalFields (.cons p t r) (.cons .nil vs) = marshalFields r vs := by
  rw [marshalFields]; simp [ho, hn, isNilVal]

/-- unsupported constructs are errors, not panics: OBJECT IDENTIFIER, open types, nil pointers -/
theorem C04_oid (p : Params) (v : Val) : marshal .oid p v = .err := by
  cases v <;> simp [marshal]
theorem C04_nil_ptr (t : Ty) (p : Params) : marshal (.ptr t) p .nil = .err := by rw [marshal]

/-! ### "either returns an error or …": which values are errors, and that their position does not matter -/

/-- C04 (errors, exactness): for a type whose OPTIONAL members are nil-able the encoder returns an error exactly when
    the independent X.690 encoder has no encoding for the value (CHOICE without / with an impossible selection, nil where
    a value is needed, OBJECT IDENTIFIER, open type, unsupported kind, value of the wrong shape) — at any depth. -/
theorem C04_error_iff_unencodable (t : Ty) (p : Params) (v : Val) (ht : optNilable t = true) :
    marshal t p v = .err ↔ encode t p v = none := by
  have h := marshal_isOk_eq_encode_isSome.1 t p v ht
  have hnp := C04_no_panic t p v ht
  cases hm : marshal t p v <;> cases he : encode t p v <;> simp_all [Res.isOk]

/-- … and returns octets exactly when it has one -/
theorem C04_ok_iff_encodable (t : Ty) (p : Params) (v : Val) (ht : optNilable t = true) :
    (∃ b, marshal t p v = .ok b) ↔ (encode t p v).isSome = true := by
  have h := marshal_isOk_eq_encode_isSome.1 t p v ht
  cases hm : marshal t p v <;> cases he : encode t p v <;> simp_all [Res.isOk]

/-- C04 (errors, position): a SEQUENCE OF / SET OF is an error exactly when SOME element is — the check is made for every
    element, not only for the last one. -/
theorem C04_list_error_iff (t : Ty) (p : Params) (vs : Vals) (ht : optNilable t = true) :
    marshal (.slice t) p (.list vs) = .err ↔
      vs.any (fun v => (marshal t { p with tagNumber := none } v).isErr) = true := by
  have h := marshalElems_isErr t { p with tagNumber := none } (fun v => marshal_no_panic.1 t _ v ht) vs
  rw [marshal]
  cases hm : marshalElems t { p with tagNumber := none } vs <;> simp_all [Res.isErr]

/-- an element that cannot be marshalled makes the list an error whatever stands before and BEHIND it -/
theorem C04_bad_element_anywhere (t : Ty) (p : Params) (pre post : Vals) (v : Val) (ht : optNilable t = true)
    (hv : marshal t { p with tagNumber := none } v = .err) :
    marshal (.slice t) p (.list (pre.append (.cons v post))) = .err := by
  rw [marshal, marshalElems_err_anywhere t _ ht pre post v hv]

/-- a present member that cannot be marshalled makes the SEQUENCE / SET an error, and so does any later one -/
theorem C04_bad_member (p : Params) (t : Ty) (r : Fields) (v : Val) (vs : Vals)
    (hn : (p.optional && !nilable t) = false) (hpres : (p.optional && isNilVal v) = false)
    (hv : marshal t p v = .err) : marshalFields (.cons p t r) (.cons v vs) = .err :=
  marshalFields_err_of_member p t r v vs hn hpres hv
theorem C04_bad_later_member (p : Params) (t : Ty) (r : Fields) (v : Val) (vs : Vals)
    (ho : optNilableFs (.cons p t r) = true) (hr : marshalFields r vs = .err) :
    marshalFields (.cons p t r) (.cons v vs) = .err :=
  marshalFields_err_of_rest p t r v vs ho hr

/-- all of it for every CDR schema type of the working tree -/
theorem C04_schema_errors (name : String) (t : Ty) (hmem : (name, t) ∈ Gen.schema) (p : Params) (v : Val) :
    (marshal t p v = .err ↔ encode t p v = none) ∧
    ∀ pre post : Vals, marshal t { p with tagNumber := none } v = .err →
      marshal (.slice t) p (.list (pre.append (.cons v post))) = .err := by
  have h := List.all_eq_true.mp schema_ok (name, t) hmem
  simp only [Bool.and_eq_true] at h
  exact ⟨C04_error_iff_unencodable t p v h.1, fun pre post hv => C04_bad_element_anywhere t p pre post v h.1 hv⟩

/-- the shapes of the seeded region, computed: an unselected CHOICE, a nil pointer and an OBJECT IDENTIFIER in front of a
    good element are errors for the encoder and have no reference encoding -/
example :
    let ch : Ty := .choice (.cons ⟨false, some 0, false, false, false, 0⟩ (.ptr (.int 64)) (.cons ⟨false, some 1, false, false, false, 0⟩ .oid .nil))
    let good : Val := .choice 1 (.cons (.int 5) (.cons .nil .nil))
    marshal (.slice ch) {} (.list (.cons (.choice 0 (.cons .nil (.cons .nil .nil))) (.cons good .nil))) = .err ∧
    marshal (.slice ch) {} (.list (.cons (.choice 2 (.cons .nil (.cons (.bytes [42, 3]) .nil))) (.cons good .nil))) = .err ∧
    marshal (.slice (.ptr ch)) {} (.list (.cons .nil (.cons good .nil))) = .err ∧
    encode (.slice ch) {} (.list (.cons (.choice 0 (.cons .nil (.cons .nil .nil))) (.cons good .nil))) = none := by
  intro ch good
  refine ⟨?_, ?_, ?_, ?_⟩
  · exact C04_bad_element_anywhere ch {} .nil (.cons good .nil) _ (by decide) (by rw [marshal]; simp)
  · exact C04_bad_element_anywhere ch {} .nil (.cons good .nil) _ (by decide)
      (by rw [marshal]; simp [Fields.length]; rw [marshalAlt, marshalAlt, marshal])
  · exact C04_bad_element_anywhere (.ptr ch) {} .nil (.cons good .nil) _ (by decide) (by rw [marshal])
  · exact (C04_error_iff_unencodable (.slice ch) {} _ (by decide)).mp
      (C04_bad_element_anywhere ch {} .nil (.cons good .nil) _ (by decide) (by rw [marshal]; simp))

/-- non-vacuity: a concrete value meets the hypotheses and both sides produce the same bytes
    (INTEGER -129 under an EXPLICIT high tag number 40) -/
example :
    paramsOK ⟨false, some 40, true, false, false, 0⟩ = true ∧ valOK (.int (-129)) = true ∧
    marshal (.int 64) ⟨false, some 40, true, false, false, 0⟩ (.int (-129)) = .ok [191, 40, 4, 2, 2, 255, 127] ∧
    encode (.int 64) ⟨false, some 40, true, false, false, 0⟩ (.int (-129)) = some [191, 40, 4, 2, 2, 255, 127] := by
  refine ⟨by decide, by decide, ?_, ?_⟩
  · rw [marshal]; simp only [Res.ok.injEq]; decide
  · rw [encode]; decide

end Chf.Props.C04
