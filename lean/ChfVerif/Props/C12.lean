import ChfVerif.Lemmas.ChargingNotify
import ChfVerif.Lemmas.ChargingStep
import ChfVerif.Lemmas.ChargingRecords
import ChfVerif.Lemmas.LockDiscipline
import ChfVerif.Gen.LockSites
/-
  C12 — charging API contract: 201 + Location / 200 / 204; rejections (4xx) have no effect;
  recharge of a known subscriber: 204 and exactly one notification naming that rating group.
  Statements are about `Charging.step`; the HTTP rendering (Location header, JSON body, timestamp)
  is compared on the real gin router by the `chf` stream.
-/
namespace Chf.Props.C12
open Chf Chf.Charging

theorem lookupSid_setSid_same (m : List (Bytes × Nat)) (sid : Bytes) (v : Nat) :
    lookupSid (setSid m sid v) sid = some v := by
  induction m with
  | nil => simp [setSid, lookupSid]
  | cons a r ih =>
    obtain ⟨k, x⟩ := a
    unfold setSid
    by_cases hk : k = sid
    · simp [hk, lookupSid]
    · simp [hk, lookupSid, ih]

/-- Every answer of the charging API is one of 201, 200, 204, 400, 404 (credit is not an API call). -/
theorem C12_status_set (guard : SplitGuard) (s : State) (op : Op) (h : ∀ a b c, op ≠ .credit a b c) :
    (step guard s op).2.status ∈ [201, 200, 204, 400, 404] := by
  cases op with
  | create r =>
    simp only [step, create]
    split
    · simp
    · split
      · simp
      · split <;> simp
  | update sid r =>
    simp only [step, update]
    split
    · simp
    · split <;> simp
  | release sid r =>
    simp only [step, release]
    split
    · simp
    · split <;> simp
  | recharge info =>
    simp only [step, recharge]
    split
    · split
      · simp
      · split <;> simp
    · simp
  | credit a b c => exact absurd rfl (h a b c)

/-- A rejected request (4xx) has no effect at all: accounts, reservations, rating modes, session map,
    records and sequence numbers are exactly as before - for every request except a create that is refused only by
    the record validation of OpenCDR (malformed PLMN id, incomplete PDU session information; see
    `C12_refused_create` for those). -/
theorem C12_reject_no_effect (guard : SplitGuard) (s : State) (op : Op)
    (h4 : (step guard s op).2.status = 400 ∨ (step guard s op).2.status = 404)
    (hnb : ∀ r, op = .create r → r.bad = false) :
    (step guard s op).1 = s :=
  rejected_same guard s op h4 hnb

/-- Every rejected request whatsoever (4xx) - the creates refused by OpenCDR included - causes no account debit or
    refund, no reservation or rating-mode change, no session-map change and no record change for any subscriber; the
    record numbering is not advanced either. -/
theorem C12_reject_no_money_no_records (guard : SplitGuard) (s : State) (op : Op)
    (h4 : (step guard s op).2.status = 400 ∨ (step guard s op).2.status = 404) :
    (step guard s op).1.accts = s.accts ∧ (step guard s op).1.tariffs = s.tariffs ∧
    (step guard s op).1.localSeq = s.localSeq ∧ ∀ supi, ueView (step guard s op).1 supi = ueView s supi :=
  rejected_view guard s op h4

/-- A create that OpenCDR refuses is answered 400; what it leaves behind is exactly: the subscriber context (created
    empty if the subscriber was unknown; left as it was, notification address included, if it was known) and - for a
    session-based create - one sequence number used up.  The number is deliberately not handed back: see
    `C10_refused_create_keeps_number`. -/
theorem C12_refused_create (guard : SplitGuard) (s : State) (r : Req) (nf : Bytes) (hnf : r.nf = some nf)
    (hp : supiAccepted r.supi = true) (hb : r.bad = true) :
    (step guard s (.create r)).2 = { status := 400 } ∧
    (step guard s (.create r)).1 =
      { s with ues := putUe s.ues (ueOr s r),
               sessionSeq := if r.one then s.sessionSeq else s.sessionSeq + 1 } := by
  show (create s r).2 = _ ∧ (create s r).1 = _
  rw [create_bad s r nf hnf hp hb]
  exact ⟨rfl, rfl⟩

/-- … so the context of a KNOWN subscriber is found unchanged after a refused create: the notification address its
    consumer registered is still the one a recharge notifies (the defect repaired in dd83835: the address was
    overwritten before OpenCDR ran) -/
theorem C12_refused_create_keeps_address (guard : SplitGuard) (s : State) (r : Req) (nf : Bytes) (u : Ue)
    (hnf : r.nf = some nf) (hp : supiAccepted r.supi = true) (hb : r.bad = true) (hu : findUe s.ues r.supi = some u) :
    findUe (step guard s (.create r)).1.ues r.supi = some u := by
  rw [(C12_refused_create guard s r nf hnf hp hb).2]
  have e : ueOr s r = u := by unfold ueOr; rw [hu]
  have hs : u.supi = r.supi := findUe_supi hu
  simp only [e]
  rw [← hs]; exact findUe_putUe_same _ _

/-- An update or release naming an unknown subscriber is answered 400, naming an unknown (or stale, or
    foreign) session reference of a known subscriber 404. -/
theorem C12_unknown_subscriber (guard : SplitGuard) (s : State) (sid : Bytes) (r : Req)
    (h : findUe s.ues r.supi = none) :
    (step guard s (.update sid r)).2.status = 400 ∧ (step guard s (.release sid r)).2.status = 400 := by
  simp [step, update, release, h]

theorem C12_unknown_session (guard : SplitGuard) (s : State) (sid : Bytes) (r : Req) (ue : Ue)
    (h : findUe s.ues r.supi = some ue) (hs : lookupSid ue.cdr sid = none) :
    (step guard s (.update sid r)).2.status = 404 ∧ (step guard s (.release sid r)).2.status = 404 := by
  simp [step, update, release, h, hs]

/-- A session-based create that is accepted: 201, the Location reference is the new session's key in the
    subscriber's session map (so it can be used to address the session), sequence number echoed. -/
theorem C12_create (guard : SplitGuard) (s : State) (r : Req) (nf : Bytes) (hnf : r.nf = some nf)
    (hp : supiAccepted r.supi = true) (hone : r.one = false) (hbad : r.bad = false) :
    (step guard s (.create r)).2.status = 201 ∧
    (step guard s (.create r)).2.loc = some (sessionId r.supi nf s.sessionSeq) ∧
    (step guard s (.create r)).2.seq = some r.seq ∧
    ∃ ue', findUe (step guard s (.create r)).1.ues r.supi = some ue' ∧
      (lookupSid ue'.cdr (sessionId r.supi nf s.sessionSeq)).isSome := by
  have key : ∃ ue' : Ue, (step guard s (.create r)).1.ues = putUe s.ues ue' ∧ ue'.supi = r.supi ∧
      (lookupSid ue'.cdr (sessionId r.supi nf s.sessionSeq)).isSome := by
    simp only [step, create, hnf, hp, hone, hbad, not_true_eq_false, if_false, Bool.false_eq_true]
    refine ⟨_, rfl, ?_, ?_⟩
    · cases hu : findUe s.ues r.supi with
      | none => rfl
      | some u => simp only; exact findUe_supi hu
    · simp only [lookupSid_setSid_same, Option.isSome_some]
  obtain ⟨ue', h1, h2, h3⟩ := key
  refine ⟨?_, ?_, ?_, ue', ?_, h3⟩
  · simp [step, create, hnf, hp, hone, hbad]
  · simp [step, create, hnf, hp, hone, hbad]
  · simp [step, create, hnf, hp, hone, hbad]
  · rw [h1, ← h2]; exact findUe_putUe_same _ _

/-- A one-time event that is accepted: 201, sequence number echoed, the reference part of the Location is EMPTY (an event opens
    no session), no sequence number is used up, no money moves, and the record opened for it holds the reported usage. -/
theorem C12_one_time_event (guard : SplitGuard) (s : State) (r : Req) (nf : Bytes) (hnf : r.nf = some nf)
    (hp : supiAccepted r.supi = true) (hone : r.one = true) (hbad : r.bad = false) :
    (step guard s (.create r)).2.status = 201 ∧
    (step guard s (.create r)).2.loc = some [] ∧
    (step guard s (.create r)).2.seq = some r.seq ∧
    (step guard s (.create r)).1.sessionSeq = s.sessionSeq ∧
    (step guard s (.create r)).1.accts = s.accts ∧
    (step guard s (.create r)).1.localSeq = s.localSeq + 1 ∧
    ∃ ue', findUe (step guard s (.create r)).1.ues r.supi = some ue' ∧ ue'.cdr = (ueOr s r).cdr := by
  have hex : ∃ ue', findUe (step guard s (.create r)).1.ues r.supi = some ue' ∧ ue'.cdr = (ueOr s r).cdr := by
    obtain ⟨ue', rec1, sid, _, hues, _, _, hcdr, hsup⟩ := create_ok s r nf hnf hp hbad
    refine ⟨ue', ?_, by rw [hcdr]; simp [hone]⟩
    show findUe (create s r).1.ues r.supi = some ue'
    rw [hues, ← ueOr_supi s r, ← hsup]; exact findUe_putUe_same _ _
  refine ⟨?_, ?_, ?_, ?_, ?_, ?_, hex⟩ <;> simp [step, create, hnf, hp, hone, hbad]

/-- The notification address across ACCEPTED creates (sessions and one-time events alike): the subscriber is notified at an address
    afterwards exactly when this create gave one or one was registered before - a create that gives none (an event, a further
    session of another consumer) does not take the registered address away (the defect repaired in ad59108 `fix: a create without a
    notification address leaves the registered one in place`: it was overwritten with the empty address, and the next recharge
    notified nobody). -/
theorem C12_create_keeps_address (guard : SplitGuard) (s : State) (r : Req) (nf : Bytes) (hnf : r.nf = some nf)
    (hp : supiAccepted r.supi = true) (hbad : r.bad = false) :
    ∃ ue', findUe (step guard s (.create r)).1.ues r.supi = some ue' ∧
      ue'.notifyUri = ((ueOr s r).notifyUri || r.uri) := by
  have key : ∃ ue' : Ue, (create s r).1.ues = putUe s.ues ue' ∧ ue'.supi = r.supi ∧
      ue'.notifyUri = ((ueOr s r).notifyUri || r.uri) := by
    unfold create ueOr
    simp only [hnf, hp, hbad, not_true_eq_false, if_false, Bool.false_eq_true]
    refine ⟨_, rfl, ?_, rfl⟩
    cases hu : findUe s.ues r.supi with
    | none => rfl
    | some u => simp only; exact findUe_supi hu
  obtain ⟨ue', h1, h2, h3⟩ := key
  refine ⟨ue', ?_, h3⟩
  show findUe (create s r).1.ues r.supi = some ue'
  rw [h1, ← h2]; exact findUe_putUe_same _ _

/-- … in particular: registered before, registered after -/
theorem C12_registered_address_survives_create (guard : SplitGuard) (s : State) (r : Req) (nf : Bytes) (u : Ue)
    (hnf : r.nf = some nf) (hp : supiAccepted r.supi = true) (hbad : r.bad = false)
    (hu : findUe s.ues r.supi = some u) (hreg : u.notifyUri = true) :
    ∃ ue', findUe (step guard s (.create r)).1.ues r.supi = some ue' ∧ ue'.notifyUri = true := by
  obtain ⟨ue', h1, h2⟩ := C12_create_keeps_address guard s r nf hnf hp hbad
  refine ⟨ue', h1, ?_⟩
  have e : ueOr s r = u := by unfold ueOr; rw [hu]
  rw [h2, e, hreg]; rfl

/-- The empty reference designates nothing, in every state any history can reach: an update or release addressed to it
    is never accepted (400 for an unknown subscriber, 404 otherwise) and, by `C12_reject_no_effect`, has no effect - also
    right after a one-time event, whose Location ends in that empty reference (the defect repaired in 02d3fe6: the event's
    record was registered under it). -/
theorem C12_empty_reference_unknown (guard : SplitGuard) (ops : List Op) (accts : Abmf.Store) (tariffs : List Rating.Tariff)
    (r : Req) :
    let s := run guard { accts := accts, tariffs := tariffs } ops
    ((step guard s (.update [] r)).2.status = 400 ∨ (step guard s (.update [] r)).2.status = 404) ∧
    ((step guard s (.release [] r)).2.status = 400 ∨ (step guard s (.release [] r)).2.status = 404) := by
  intro s
  have hinv : NoEmptyKey s := NoEmptyKey_run guard ops _ (by intro u hu; simp at hu)
  cases hu : findUe s.ues r.supi with
  | none => exact ⟨Or.inl (C12_unknown_subscriber guard s [] r hu).1, Or.inl (C12_unknown_subscriber guard s [] r hu).2⟩
  | some ue =>
    have hl : lookupSid ue.cdr [] = none := lookupSid_none_of_not_key (hinv ue (mem_of_findUe hu))
    exact ⟨Or.inr (C12_unknown_session guard s [] r ue hu hl).1, Or.inr (C12_unknown_session guard s [] r ue hu hl).2⟩

/-- An accepted update: 200 with the sequence number echoed. -/
theorem C12_update (guard : SplitGuard) (s : State) (sid : Bytes) (r : Req) (ue : Ue) (idx : Nat)
    (h : findUe s.ues r.supi = some ue) (hs : lookupSid ue.cdr sid = some idx) :
    (step guard s (.update sid r)).2.status = 200 ∧ (step guard s (.update sid r)).2.seq = some r.seq := by
  simp [step, update, h, hs]

/-- An accepted release: 204 without body, and the reference is gone afterwards. -/
theorem C12_release (guard : SplitGuard) (s : State) (sid : Bytes) (r : Req) (ue : Ue) (idx : Nat)
    (h : findUe s.ues r.supi = some ue) (hs : lookupSid ue.cdr sid = some idx) :
    (step guard s (.release sid r)).2.status = 204 ∧ (step guard s (.release sid r)).2.muis = [] ∧
    (step guard s (.release sid r)).2.seq = none := by
  simp [step, release, h, hs]

/-- A recharge `<ueId>_<rg>` for a known subscriber: 204 and exactly one notification, to the URI that
    subscriber's consumer registered, naming that rating group. -/
theorem C12_recharge (guard : SplitGuard) (s : State) (info ueId rgStr : Bytes) (rg : Int) (ue : Ue)
    (hsp : splitUnderscore info = [ueId, rgStr]) (hrg : parseInt32 rgStr = some rg)
    (hu : findUe s.ues ueId = some ue) (huri : ue.notifyUri = true) :
    (step guard s (.recharge info)).2.status = 204 ∧ (step guard s (.recharge info)).2.notif = [(ue.supi, rg)] := by
  simp [step, recharge, hsp, hrg, hu, huri]

/-- "A request that names an unknown session reference … has no effect", also next to other requests of the subscriber: the
    look-up that decides whether a reference is known, like every other access to subscriber state a handler can reach, is made
    while the subscriber's mutex is held (regenerated tables of harness/cmd/stateaccess.go, `decide`) - so the decision cannot be
    taken on a session map that a create or release is changing, nor be outdated when the request acts on it. -/
theorem C12_state_access_under_lock :
    Chf.LockDiscipline.stateAccessOK Chf.Gen.fnFacts Chf.Gen.callFacts = true := by decide

/-- "… to the notification URI the subscriber's consumer registered", for every history: once a consumer of the subscriber has
    registered an address, the subscriber is known with a registered address after ANY further operations (creates with or
    without an address of their own, refused creates, updates, releases, recharges, credits of any subscriber) - so by
    `C12_recharge` every later recharge of the subscriber is answered 204 with exactly one notification -/
theorem C12_address_stays_registered (guard : SplitGuard) (s : State) (ops : List Op) (supi : Bytes) (u : Ue)
    (hu : findUe s.ues supi = some u) (hreg : u.notifyUri = true) :
    ∃ u', findUe (run guard s ops).ues supi = some u' ∧ u'.notifyUri = true :=
  registered_run guard ops s supi u hu hreg

/-- … and the recharge that follows such a history -/
theorem C12_recharge_after_any_history (guard : SplitGuard) (s : State) (ops : List Op) (supi rgStr : Bytes) (rg : Int) (u : Ue)
    (hu : findUe s.ues supi = some u) (hreg : u.notifyUri = true)
    (hsp : splitUnderscore (supi ++ [95] ++ rgStr) = [supi, rgStr]) (hrg : parseInt32 rgStr = some rg) :
    (step guard (run guard s ops) (.recharge (supi ++ [95] ++ rgStr))).2.status = 204 ∧
    (step guard (run guard s ops) (.recharge (supi ++ [95] ++ rgStr))).2.notif = [(supi, rg)] := by
  obtain ⟨u', h1, h2⟩ := C12_address_stays_registered guard s ops supi u hu hreg
  have h := C12_recharge guard (run guard s ops) (supi ++ [95] ++ rgStr) supi rgStr rg u' hsp hrg h1 h2
  rw [findUe_supi h1] at h
  exact h

end Chf.Props.C12
