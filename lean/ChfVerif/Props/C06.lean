import ChfVerif.Lemmas.ChargingOutage
/-
  C06 — grants never exceed what the subscriber's money buys; no overdraft.

  Ghost state: the *ledger* of last granted volumes per (subscriber, rating group) — the CHF keeps
  quota per subscriber and rating group, so that is the granularity at which "the consumer never
  reports more than it was last granted" is stated (`opCompliantB`).  Invariant `Safe`:
    * no account balance is negative,
    * every grant on the ledger is backed: lastGrant × unit cost ≤ reservation held.
  `C06` : Safe is preserved along every compliant history inside the quantifier ⇒ no balance ever negative.
  `C06_grant_*` : in reserve mode the grant is ≤ the request, is backed by the reservation, equals the
  request when no final-unit indication is returned, and equals ⌊(balance + unconsumed reservation) / unit cost⌋
  together with a final-unit indication exactly when that money buys less than requested.
-/
namespace Chf.Props.C06
open Chf Chf.Charging

def Safe (s : State) (Ls : Ledgers) : Prop :=
  NonNeg s.accts ∧ ∀ supi, Backed s.tariffs supi (groupsOf s supi) (ledgerOf Ls supi)

/-- One operation preserves `Safe`. -/
theorem C06_step (guard : SplitGuard) (s : State) (Ls : Ledgers) (op : Op)
    (hS : Safe s Ls) (hok : opOKb s op = true) (hcomp : opCompliantB s Ls op = true) :
    Safe (step guard s op).1 (ledgersStep s Ls op) := by
  obtain ⟨hN, hB⟩ := hS
  unfold opOKb at hok
  unfold opCompliantB at hcomp
  unfold ledgersStep
  cases hc : chargedUsages s op with
  | some x =>
    obtain ⟨supi', trigs, groups, us⟩ := x
    simp only [hc, Bool.and_eq_true] at hok hcomp ⊢
    obtain ⟨⟨hau, hru⟩, hok⟩ := hok
    obtain ⟨ha, hg, hgo, hgs⟩ := charged_step (guard := guard) hc
    simp only [seenAccts, seenTariffs, acctsAfter, hau, hru, if_true] at ha hg hcomp ⊢
    have hB' := hB supi'
    rw [hgs] at hB'
    obtain ⟨b1, n1⟩ := creditControl_safe s.tariffs supi' trigs us s.accts groups (ledgerOf Ls supi') hok hcomp hB' hN
    constructor
    · rw [ha]; exact n1
    · intro supi
      rw [step_tariffs]
      by_cases hs : supi = supi'
      · rw [hs, hg, ledgerOf_set_same]; exact b1
      · rw [hgo _ hs, ledgerOf_set_other _ _ _ _ hs]; exact hB supi
  | none =>
    simp only [hc] at hcomp ⊢
    obtain ⟨hres, hbal⟩ := uncharged_step (guard := guard) hc
    constructor
    · intro supi rg v hv
      by_cases hcr : ∃ amt, op = .credit supi rg amt
      · obtain ⟨amt, hop⟩ := hcr
        subst hop
        simp only [decide_eq_true_eq] at hcomp
        simp only [step, creditAcct] at hv
        cases hf : Abmf.find s.accts supi rg with
        | none => simp only [hf] at hv; exact hN _ _ _ hv
        | some q =>
          simp only [hf] at hv
          cases hp : q.parse with
          | none => simp only [hp] at hv; exact hN _ _ _ hv
          | some w =>
            simp only [hp] at hv
            rw [balOf_put_same _ hf] at hv
            cases hv
            have : 0 ≤ w := hN supi rg w (by unfold balOf; rw [hf]; exact hp)
            omega
      · rw [hbal _ _ (fun a b c hop hab => hcr ⟨c, by rw [hop, hab.1, hab.2]⟩)] at hv
        exact hN _ _ _ hv
    · intro supi rg s' hrg hs'
      rw [step_tariffs] at hs'
      rw [hres]
      exact hB supi rg s' hrg hs'

/-- compliance and ledgers along a history -/
def runCompliantB (guard : SplitGuard) : State → Ledgers → List Op → Bool
  | _, _, [] => true
  | s, Ls, op :: r => opCompliantB s Ls op && runCompliantB guard (step guard s op).1 (ledgersStep s Ls op) r

def runOKb (guard : SplitGuard) : State → List Op → Bool
  | _, [] => true
  | s, op :: r => opOKb s op && runOKb guard (step guard s op).1 r

def runLedgers (guard : SplitGuard) : State → Ledgers → List Op → Ledgers
  | _, Ls, [] => Ls
  | s, Ls, op :: r => runLedgers guard (step guard s op).1 (ledgersStep s Ls op) r

/-- C06 (no overdraft): along every history of a compliant consumer — any length, any mix of subscribers,
    sessions, rating groups, balances, tariffs and request sizes inside the quantifier — `Safe` is preserved;
    in particular no account balance is ever negative. -/
theorem C06 (guard : SplitGuard) (ops : List Op) : ∀ (s : State) (Ls : Ledgers),
    Safe s Ls → runOKb guard s ops = true → runCompliantB guard s Ls ops = true →
    Safe (run guard s ops) (runLedgers guard s Ls ops) := by
  induction ops with
  | nil => intro s Ls h _ _; exact h
  | cons op r ih =>
    intro s Ls hS hok hc
    simp only [runOKb, runCompliantB, Bool.and_eq_true] at hok hc
    simp only [run, runLedgers]
    exact ih _ _ (C06_step guard s Ls op hS hok.1 hc.1) hok.2 hc.2

theorem C06_never_negative (guard : SplitGuard) (ops : List Op) (s : State) (Ls : Ledgers)
    (hS : Safe s Ls) (hok : runOKb guard s ops = true) (hc : runCompliantB guard s Ls ops = true)
    (supi : Bytes) (rg : Nat) (b : Int) (hb : balOf (run guard s ops).accts supi rg = some b) : 0 ≤ b :=
  (C06 guard ops s Ls hS hok hc).1 supi rg b hb

/-- a world with no subscriber yet and no overdrawn account is `Safe` -/
theorem Safe_init (accts : Abmf.Store) (tariffs : List Rating.Tariff) (hN : NonNeg accts) :
    Safe { accts := accts, tariffs := tariffs } [] := by
  refine ⟨hN, ?_⟩
  intro supi rg s _ _
  simp [groupsOf, findUe, resv, getRg, ledgerOf, lastGrant]

/-! ### the grant of one reserve-mode usage -/

/-- the grant is at most the requested volume and is backed by the reservation; the balance stays ≥ 0 -/
theorem C06_grant_backed {e : Env} {supi : Bytes} {u : Usage} {st : RgState} {b : Int} {s : Bytes}
    (ok : UsageOK e supi u st b s) (hb : 0 ≤ b) (hcov : ((totalUsed u.cs * costOf s : Nat) : Int) ≤ st.reserved) :
    ∃ g f b', (reserveBranch e supi u st (totalUsed u.cs)).mui = some { rg := u.rg, granted := g, fui := f } ∧
      g ≤ reqVolOf u ∧
      ((g * costOf s : Nat) : Int) ≤ (reserveBranch e supi u st (totalUsed u.cs)).st.reserved ∧
      balOf (reserveBranch e supi u st (totalUsed u.cs)).accts supi (u32 u.rg) = some b' ∧ 0 ≤ b' := by
  obtain ⟨c1, c2, c3, _⟩ := reserve_char ok
  obtain ⟨s1, _, s3, s4, _⟩ := reserveSpec_safe b st.reserved (totalUsed u.cs) (reqVolOf u) (costOf s) hb hcov
  exact ⟨_, _, _, c3, s4, by rw [c2]; exact s3, c1, s1⟩

/-- final-unit indication ⇔ balance + unconsumed reservation buys less than requested; then the grant is
    exactly what that money buys, otherwise it is the full request -/
theorem C06_grant_limited {e : Env} {supi : Bytes} {u : Usage} {st : RgState} {b : Int} {s : Bytes}
    (ok : UsageOK e supi u st b s) (hb : 0 ≤ b) (hcov : ((totalUsed u.cs * costOf s : Nat) : Int) ≤ st.reserved)
    (hc : 0 < costOf s) :
    ∃ g f, (reserveBranch e supi u st (totalUsed u.cs)).mui = some { rg := u.rg, granted := g, fui := f } ∧
      (f = true ↔ b + (st.reserved - ((totalUsed u.cs * costOf s : Nat) : Int)) < ((reqVolOf u * costOf s : Nat) : Int)) ∧
      (f = true → g = (b + (st.reserved - ((totalUsed u.cs * costOf s : Nat) : Int))).toNat / costOf s) ∧
      (f = false → g = reqVolOf u) := by
  obtain ⟨_, _, c3, _⟩ := reserve_char ok
  obtain ⟨_, _, _, _, s5⟩ := reserveSpec_safe b st.reserved (totalUsed u.cs) (reqVolOf u) (costOf s) hb hcov
  exact ⟨_, _, c3, s5, reserveSpec_limited _ _ _ _ _ hc hb hcov, reserveSpec_full _ _ _ _ _ hc hcov⟩

/-- debit mode never grants units -/
theorem C06_debit_grants_nothing {e : Env} {supi : Bytes} {u : Usage} {st : RgState} {b : Int} {s : Bytes}
    (ok : UsageOK e supi u st b s) :
    (debitBranch e supi u st (totalUsed u.cs)).mui = some { rg := u.rg, granted := 0, fui := false } :=
  (debit_char ok).2.2.1

/-! ### while a server is unreachable -/

/-- No overdraft across outages: while the account-balance server or the rating server (or both) cannot be
    reached, no operation makes an account balance negative — whatever the consumer reports (the only account
    request that still succeeds is a reservation, which the server limits to the balance; refunds and final
    debits need both servers).  An external credit must not take money away. -/
theorem C06_outage_never_negative_step (guard : SplitGuard) (s : State) (op : Op)
    (hdown : ¬ (s.abmfUp = true ∧ s.rfUp = true)) (hok : opOKx s op = true)
    (hcr : ∀ a b c, op = .credit a b c → 0 ≤ c) (hN : NonNeg s.accts) :
    NonNeg (step guard s op).1.accts := by
  unfold opOKx at hok
  cases hc : chargedUsages s op with
  | some x =>
    obtain ⟨supi', trigs, groups, us⟩ := x
    simp only [hc] at hok
    obtain ⟨ha, _, _, _⟩ := charged_step (guard := guard) hc
    simp only [seenAccts, seenTariffs, acctsAfter] at ha
    rw [ha]
    exact creditControl_nonneg_x s.abmfUp s.rfUp s.tariffs supi' trigs hdown us s.accts groups hok hN
  | none =>
    obtain ⟨_, hbal⟩ := uncharged_step (guard := guard) hc
    intro supi rg v hv
    by_cases hcr' : ∃ amt, op = .credit supi rg amt
    · obtain ⟨amt, hop⟩ := hcr'
      have hamt := hcr _ _ _ hop
      subst hop
      simp only [step, creditAcct] at hv
      cases hf : Abmf.find s.accts supi rg with
      | none => simp only [hf] at hv; exact hN _ _ _ hv
      | some q =>
        simp only [hf] at hv
        cases hp : q.parse with
        | none => simp only [hp] at hv; exact hN _ _ _ hv
        | some w =>
          simp only [hp] at hv
          rw [balOf_put_same _ hf] at hv
          cases hv
          have : 0 ≤ w := hN supi rg w (by unfold balOf; rw [hf]; exact hp)
          omega
    · rw [hbal _ _ (fun a b c hop hab => hcr' ⟨c, by rw [hop, hab.1, hab.2]⟩)] at hv
      exact hN _ _ _ hv

/-- what the seeded "roll back" would break, stated for the model: with the account-balance server unreachable a
    reserve-mode report is still taken off the reservation in full (so a later grant cannot be backed by money
    that is already consumed) -/
theorem C06_outage_usage_still_consumed (tariffs : List Rating.Tariff) (supi : Bytes) (u : Usage) (st : RgState)
    (used : Nat) (hfit : used * getUnitCost { accts := [], tariffs := tariffs } supi u.rg < 4294967296)
    (hr : -2305843009213693952 ≤ st.reserved ∧ st.reserved ≤ 2305843009213693952) :
    (reserveBranch { accts := [], tariffs := tariffs } supi u st used).st.reserved =
      st.reserved - ((used * getUnitCost { accts := [], tariffs := tariffs } supi u.rg : Nat) : Int) :=
  (reserve_abmf_down tariffs supi u st used hfit hr).2

end Chf.Props.C06
