import ChfVerif.Model.DiamClient
import ChfVerif.Gen.DiamClient
import ChfVerif.Gen.AbmfServer
import Driver.CdrFileIO
/-
  `peer scen <supi> <step>*` : what the client machines of Model/DiamClient.lean (with the configuration
  regenerated from the working tree) predict for a scripted scenario of the `peer` stream.  One online update
  with a requested unit makes, in this order, a rating request (unit cost), an account-balance request, and two
  more rating requests; an account-balance or second rating request that fails ends the update.
-/
namespace Chf.Driver
open Chf Chf.DiamClient

structure World where
  abmf : Sim := {}
  rf : Sim := {}
  now : Nat := 0
  aq : List Nat := []
  rq : List Nat := []
  hung : Bool := false
  copies : Nat := 1
  ahq : List Nat := []        -- queued connection set-up times, account-balance peer (HA)
  rhq : List Nat := []        -- … rating peer (HR)
  abmfDead : Bool := false    -- the stored document is one the account-balance server cannot digest: no answer
  rfDead : Bool := false      -- … the rating server
  serial : Bool := Chf.Gen.abmfServer.lockBeforeRead   -- overridden by the scenario's S step (measured on the real server)
  abusy : Nat := 0            -- the account-balance server works on the subscriber's account until then: it handles the requests
                              -- for one account one after the other (pkg/abmf lockAccount), so a request that reaches it
                              -- earlier waits for the handler before it

def popQ : List Nat → Nat × List Nat
  | [] => (0, [])
  | d :: r => (d, r)

/-- an answer that never comes -/
def never : Nat := 100000000

def wCallRf (w : World) : World × CallResult :=
  let (d, rq) := popQ w.rq
  let (h, rhq) := popQ w.rhq
  let (sim, r) := call Chf.Gen.ratingClient w.rf (w.now - w.rf.now) (if w.rfDead then never else d) w.copies h
  ({ w with rf := sim, rq := rq, rhq := rhq, now := max w.now sim.now }, r)

def wCallAbmf (w : World) : World × CallResult :=
  let (d, aq) := popQ w.aq
  let (h, ahq) := popQ w.ahq
  -- the request reaches the server once the connection is set up; its handler starts when the account is free, then takes d
  let t := w.now + h
  let start := max t w.abusy
  let wait := if w.serial then start - t else 0
  let (sim, r) := call Chf.Gen.abmfClient w.abmf (w.now - w.abmf.now) (if w.abmfDead then never else wait + d) w.copies h
  let abusy := if w.abmfDead || !w.serial then w.abusy else start + d
  ({ w with abmf := sim, aq := aq, ahq := ahq, now := max w.now sim.now, abusy := abusy }, r)

def isTimeout : CallResult → Bool
  | .done (.timeout _) _ => true
  | _ => false

/-- one online update: (world, who answered the account-balance request, elapsed ms, completed,
    whether the grant must be positive: the account-balance answer and the rating answer that sizes the grant
    are the update's own) -/
def wUpdate (w : World) : World × String × Nat × Bool × Bool :=
  let t0 := w.now
  let (w, r1) := wCallRf w
  if r1 == .hung then ({ w with hung := true }, "-", 0, false, false)
  else
    let (w, r2) := wCallAbmf w
    match r2 with
    | .hung => ({ w with hung := true }, "-", 0, false, false)
    | .done (.timeout _) _ => (w, "0", w.now - t0, true, false)
    | .done o _ =>
      let who := match o with
        | .own _ => "own"
        | .foreign _ j => toString j
        | .timeout _ => "0"
      let (w, r3) := wCallRf w
      if r3 == .hung then ({ w with hung := true }, "-", 0, false, false)
      else if isTimeout r3 then (w, who, w.now - t0, true, false)
      else
        let pos := who == "own" && (match r3 with | .done (.own _) _ => true | _ => false)
        let (w, r4) := wCallRf w
        if r4 == .hung then ({ w with hung := true }, "-", 0, false, false)
        else (w, who, w.now - t0, true, pos)

/-- one final report (debit mode): a rating request for the price, then - when it was answered - the settling
    account-balance request; (world, elapsed ms, completed) -/
def wFinal (w : World) : World × Nat × Bool :=
  let t0 := w.now
  let (w, r1) := wCallRf w
  if r1 == .hung then ({ w with hung := true }, 0, false)
  else if isTimeout r1 then (w, w.now - t0, true)
  else
    let (w, r2) := wCallAbmf w
    if r2 == .hung then ({ w with hung := true }, 0, false)
    else (w, w.now - t0, true)

def wManyUpdates : Nat → World → World
  | 0, w => w
  | n + 1, w => if w.hung then w else wManyUpdates n (wUpdate w).1

def peerSteps : List String → World → List String → Option (List String)
  | [], _, acc => some acc.reverse
  | s :: rest, w, acc =>
    let isH := s.toList.take 1 == ['H']
    let arg := (String.ofList (s.toList.drop (if isH then 2 else 1))).toNat?
    match String.ofList (s.toList.take (if isH then 2 else 1)), arg with
    | "HA", some d => if d ≤ 20000 then peerSteps rest { w with ahq := w.ahq ++ [d] } acc else none
    | "HR", some d => if d ≤ 20000 then peerSteps rest { w with rhq := w.rhq ++ [d] } acc else none
    | "Q", some k =>
      if k ≤ 2 then peerSteps rest { w with abmfDead := true, rfDead := false } acc
      else if k ≤ 4 then peerSteps rest { w with rfDead := true, abmfDead := false } acc
      else if k = 9 then peerSteps rest { w with abmfDead := false, rfDead := false } acc
      else none
    | "K", some b => if b ≤ 1 then peerSteps rest w acc else none   -- which key pair the configuration names: no outcome depends on it
    | "S", some b => if b ≤ 1 then peerSteps rest { w with serial := b == 1 } acc else none
    | "A", some d => peerSteps rest { w with aq := w.aq ++ [d] } acc
    | "R", some d => peerSteps rest { w with rq := w.rq ++ [d] } acc
    | "W", some d => peerSteps rest { w with now := w.now + d } acc
    | "D", some k => if 1 ≤ k ∧ k ≤ 8 then peerSteps rest { w with copies := k } acc else none
    | "U", some _ =>
      if w.hung then peerSteps rest w ("u=skipped" :: acc)
      else
        let (w, who, ms, done, pos) := wUpdate w
        peerSteps rest w ((if done then s!"u={who}:{ms}:1:{if pos then 1 else 0}" else "u=-:-:0:0") :: acc)
    | "F", some _ =>
      if w.hung then peerSteps rest w ("f=skipped" :: acc)
      else
        let (w, ms, done) := wFinal w
        peerSteps rest w ((if done then s!"f={ms}:1" else "f=-:0") :: acc)
    | "N", some k =>
      let w := wManyUpdates k w
      peerSteps rest w (s!"n={k}:{if w.hung then 0 else 1}" :: acc)
    | "C", none =>
      let conns := w.abmf.w.st.conns.length + w.rf.w.st.conns.length
      let tasks := tasks Chf.Gen.abmfClient w.abmf.w + tasks Chf.Gen.ratingClient w.rf.w
      peerSteps rest w (s!"c={conns}:{tasks}:{w.abmf.w.orphans + w.rf.w.orphans}:{w.abmf.w.st.blocked + w.rf.w.st.blocked}" :: acc)
    | _, _ => none

def peerOp : Tok → String
  | ["sweep", _peer, n, _lo, _hi] =>
    -- n subscribers whose first answer arrives around the timer: whatever the scheduler does with the message a closed
    -- connection had still read (Ev.staleAnswer), no request acts upon another's answer (C19_no_crosstalk,
    -- C19_stale_answer_ignored), and every request is served
    (match n.toNat? with
     | some k => s!"sweep n={k} done={k} cross=0"
     | none => "bad-op")
  | "scen" :: _ :: steps =>
    match peerSteps steps {} [] with
    | some out => " ".intercalate out
    | none => "bad-op"
  | _ => "bad-op"

end Chf.Driver
