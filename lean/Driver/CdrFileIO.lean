import ChfVerif.Model.CdrFile
import ChfVerif.Spec.TS32297
import ChfVerif.Gen.CdrFileFacts
/- token (de)serialisation of CDR file structures for the line protocol -/
namespace Chf.Driver
open Chf Chf.CdrFile

abbrev Tok := List String

def pNat : Tok → Option (Nat × Tok)
  | [] => none
  | t :: r => match t.toNat? with
    | some n => some (n, r)
    | none => none

def pHex : Tok → Option (Bytes × Tok)
  | [] => none
  | t :: r => match bytesOfHex t with
    | some b => some (b, r)
    | none => none

def pNats : Nat → Tok → Option (List Nat × Tok)
  | 0, t => some ([], t)
  | n + 1, t => match pNat t with
    | none => none
    | some (x, t) => match pNats n t with
      | none => none
      | some (xs, t) => some (x :: xs, t)

def pTs (t : Tok) : Option (TimeStamp × Tok) :=
  match pNats 7 t with
  | some ([a, b, c, d, e, f, g], t) =>
    some ({ month := a, date := b, hour := c, minute := d, sign := e, hdev := f, mdev := g }, t)
  | _ => none

def pCdrs : Nat → Tok → Option (List Cdr × Tok)
  | 0, t => some ([], t)
  | n + 1, t =>
    match pNats 6 t with
    | some ([a, b, c, d, e, f], t) =>
      match pHex t with
      | some (body, t) =>
        match pCdrs n t with
        | some (cs, t) =>
          some ({ hdr := { cdrLength := a, rel := b, ver := c, fmt := d, ts := e, relExt := f },
                  bytes := body } :: cs, t)
        | none => none
      | none => none
    | _ => none

def pFile (t : Tok) : Option (File × Tok) := do
  let ([fl, hl, hr, hv, lr, lv], t) ← pNats 6 t | none
  let (ots, t) ← pTs t
  let (lts, t) ← pTs t
  let ([num, seq, clo], t) ← pNats 3 t | none
  let (ip, t) ← pHex t
  let ([lost, lenF], t) ← pNats 2 t | none
  let (filter, t) ← pHex t
  let (lenE, t) ← pNat t
  let (ext, t) ← pHex t
  let ([he, le, nrec], t) ← pNats 3 t | none
  let (cs, t) ← pCdrs nrec t
  some ({ hdr := { fileLength := fl, headerLength := hl, highRel := hr, highVer := hv, lowRel := lr,
                   lowVer := lv, openTs := ots, lastTs := lts, numCdrs := num, fileSeq := seq,
                   closure := clo, ip := ip, lost := lost, lenFilter := lenF, filter := filter,
                   lenExt := lenE, ext := ext, highExt := he, lowExt := le },
          cdrs := cs }, t)

def sTs (t : TimeStamp) : List String :=
  [t.month, t.date, t.hour, t.minute, t.sign, t.hdev, t.mdev].map toString

def sCdr (c : Cdr) : List String :=
  [c.hdr.cdrLength, c.hdr.rel, c.hdr.ver, c.hdr.fmt, c.hdr.ts, c.hdr.relExt].map toString ++
    [hexOfBytes c.bytes]

def sFile (f : File) : List String :=
  let h := f.hdr
  [h.fileLength, h.headerLength, h.highRel, h.highVer, h.lowRel, h.lowVer].map toString ++
  sTs h.openTs ++ sTs h.lastTs ++
  [h.numCdrs, h.fileSeq, h.closure].map toString ++ [hexOfBytes h.ip] ++
  [toString h.lost, toString h.lenFilter, hexOfBytes h.filter, toString h.lenExt, hexOfBytes h.ext,
   toString h.highExt, toString h.lowExt, toString f.cdrs.length] ++
  (f.cdrs.map sCdr).flatten

def unwords (l : List String) : String := " ".intercalate l

/-- one `cdrfile` operation -/
def cdrfileOp : Tok → String
  | "enc" :: t =>
    match pFile t with
    | some (f, []) => "ok " ++ hexOfBytes (encodeFile f)
    | _ => "bad-op"
  | "conc" :: t =>      -- written by several goroutines at once: the same octets as when written alone
    match pFile t with
    | some (f, []) => "ok " ++ hexOfBytes (encodeFile f)
    | _ => "bad-op"
  | ["dec", h] =>
    match bytesOfHex h with
    | some b => match decodeFile b with
      | some f => "ok " ++ unwords (sFile f)
      | none => "panic"
    | none => "bad-op"
  | ["big", n, l, _] =>   -- a file of n records of l octets each (CdrFile stream, op `big`): lengths from the model's encoders
    match n.toNat?, l.toNat? with
    | some n, some l =>
      let hdr : FileHeader := { (default : FileHeader) with highRel := 6, lowRel := 6, ip := List.replicate 20 0 }
      let ch : CdrHeader := { (default : CdrHeader) with rel := 6 }
      let len := (encodeHeader hdr).length + n * ((encodeCdrHeader ch).length + l)
      if n ≤ 4096 ∧ l ≤ 65535 then s!"ok len={len} flen={len} n={n} eq=1" else "bad-op"
    | _, _ => "bad-op"
  | "over" :: _perm :: n :: fill :: t =>   -- the destination already holds n octets (or does not exist: "-")
    match pFile t, fill.toNat? with
    | some (f, []), some fill =>
      let old : Option (Option Bytes) := if n == "-" then some none else (n.toNat?).map fun k => some (patternBytes k fill)
      (match old with
       | none => "bad-op"
       | some old =>
         let b := encodingOnto Chf.Gen.encodingWrite old f
         match decodeFile b with
         | some g => "ok " ++ hexOfBytes b ++ " " ++ unwords (sFile g)
         | none => "panic " ++ hexOfBytes b)
    | _, _ => "bad-op"
  | "rewrite" :: t =>                      -- file A, then file B written to the same path
    match pFile t with
    | some (a, "|" :: t2) =>
      (match pFile t2 with
       | some (f, []) =>
         let b := encodingOnto Chf.Gen.encodingWrite (some (encodingOnto Chf.Gen.encodingWrite none a)) f
         (match decodeFile b with
          | some g => "ok " ++ hexOfBytes b ++ " " ++ unwords (sFile g)
          | none => "panic " ++ hexOfBytes b)
       | _ => "bad-op")
    | _ => "bad-op"
  | "reuse" :: t =>                        -- one reader value decodes file A, then file B: it holds B
    match pFile t with
    | some (_, "|" :: t2) =>
      (match pFile t2 with
       | some (f, []) =>
         let b := encodeFile f
         (match decodeFile b with
          | some g => "ok " ++ hexOfBytes b ++ " " ++ unwords (sFile g)
          | none => "panic " ++ hexOfBytes b)
       | _ => "bad-op")
    | _ => "bad-op"
  | "afterfail" :: t =>                    -- file A written onto a directory (fails), then file B
    match pFile t with
    | some (_, "|" :: t2) =>
      (match pFile t2 with
       | some (f, []) =>
         let b := encodeFile f
         (match decodeFile b with
          | some g => "ok " ++ hexOfBytes b ++ " " ++ unwords (sFile g)
          | none => "panic " ++ hexOfBytes b)
       | _ => "bad-op")
    | _ => "bad-op"
  | "rt" :: t =>
    match pFile t with
    | some (f, []) =>
      let b := encodeFile f
      (match decodeFile b with
       | some g => "ok " ++ hexOfBytes b ++ " " ++ unwords (sFile g)
       | none => "panic " ++ hexOfBytes b)
    | _ => "bad-op"
  | ["spec", h] =>
    match bytesOfHex h with
    | some b => match TS32297.read b with
      | some f => "ok " ++ unwords (sFile f)
      | none => "none"
    | none => "bad-op"
  | ["lens", h] =>
    match bytesOfHex h with
    | some b => if TS32297.lengthsConsistent b then "ok" else "bad"
    | none => "bad-op"
  | _ => "bad-op"

end Chf.Driver
