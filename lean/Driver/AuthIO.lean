import Driver.CdrFileIO
import ChfVerif.Model.Router
import ChfVerif.Gen.Routes
/-
  `auth probe <services|-> <method> <hex path> <token kind> [<request context>]`
  The router model (newRouter over the regenerated case facts, the regenerated route table of the service list)
  serves the request through the regenerated paths of the middleware and of the decision function, under every
  adversary the model knows (all uninterpreted conditions true / all false) and on every feasible path.
  Answer: `status=<n> handler=<0|1>` when all of them agree, else `ambiguous …`.
-/
namespace Chf.Driver
open Chf Chf.Router

def strOfBytes (b : Bytes) : String := String.ofList (b.map Char.ofNat)

/-- (method, path below the group prefix) of the routes gin registered for a service under a service list -/
def routesOfTable (routes : List RouteInfo) (name : String) : List (String × String) :=
  match findCase Chf.Gen.caseFacts name with
  | none => []
  | some f => (routes.filter (·.group == f.pfx)).map fun r => (r.method, (r.path.drop f.pfx.length).toString)

def dedup [BEq α] : List α → List α
  | [] => []
  | a :: r => a :: (dedup r).filter (· != a)

/-- only the token kind `valid` verifies against the NRF certificate -/
def kindVerifies (kind : String) : Bool := kind == "valid"

def authOutcomes (chain : List MW) (verifies : Bool) : List Outcome :=
  let advs : List Adversary := [fun _ => true, fun _ => false]
  dedup <| advs.flatMap fun adv =>
    match decision Chf.Gen.authPaths adv true verifies with
    | none => [⟨0, true⟩]          -- no path of the decision function applies: not modelled
    | some ok => (Chf.Gen.checkPaths.filter (feasible ok)).map fun p => serveVia p chain

def hexVal (c : Char) : Option Nat :=
  if '0' ≤ c ∧ c ≤ '9' then some (c.toNat - '0'.toNat)
  else if 'a' ≤ c ∧ c ≤ 'f' then some (c.toNat - 'a'.toNat + 10)
  else if 'A' ≤ c ∧ c ≤ 'F' then some (c.toNat - 'A'.toNat + 10)
  else none

/-- the router matches the DECODED path (net/http decodes `%XX`, gin routes on `URL.Path`): a path spelled with escapes
    names the same route as its plain spelling -/
def pctDecode : List Char → List Char
  | '%' :: a :: b :: r =>
    (match hexVal a, hexVal b with
     | some x, some y => Char.ofNat (16 * x + y) :: pctDecode r
     | _, _ => '%' :: pctDecode (a :: b :: r))
  | c :: r => c :: pctDecode r
  | [] => []

def authOp : Tok → String
  | "probe" :: svcs :: method :: hpath :: kind :: _ =>
    (match bytesOfHex hpath with
     | none => "bad-op"
     | some pb =>
       let path := String.ofList (pctDecode (strOfBytes pb).toList)
       let names := if svcs == "-" then [] else svcs.splitOn ","
       let table := (Chf.Gen.runtimeRoutes.find? (·.1 == names)).map (·.2) |>.getD []
       let router := newRouter Chf.Gen.caseFacts (routesOfTable table) names
       match router.find? (fun r => r.method == method && r.path == path) with
       | none => "status=404 handler=0"
       | some r =>
         match authOutcomes r.chain (kindVerifies kind) with
         | [o] => s!"status={o.status} handler={if o.handlerRan then 1 else 0}"
         | os => "ambiguous " ++ " ".intercalate (os.map fun o => s!"{o.status}/{if o.handlerRan then 1 else 0}"))
  | ["conc", svcs, method, hpath, rounds] =>
    -- per round 4 requests with a bad token next to 4 with a good one, then 2 bad ones alone: the decision of the router model
    -- is a function of the request alone (no state), so every one of them is rejected
    (match bytesOfHex hpath, rounds.toNat? with
     | some pb, some n =>
       let path := strOfBytes pb
       let names := svcs.splitOn ","
       let table := (Chf.Gen.runtimeRoutes.find? (·.1 == names)).map (·.2) |>.getD []
       let router := newRouter Chf.Gen.caseFacts (routesOfTable table) names
       (match router.find? (fun r => r.method == method && r.path == path) with
        | none => "no-route"
        | some r =>
          let rejected := (authOutcomes r.chain false).all fun o => o.status == 401 && !o.handlerRan
          s!"conc bad={6 * n} accepted={if rejected then 0 else 6 * n}")
     | _, _ => "bad-op")
  | ["nrf", code, d] =>
    -- what the NRF declares in its registration answer is what the CHF requires afterwards, whichever status the answer has;
    -- with OAuth2 required the router model rejects a request without token on every route (C13)
    if (code = "200" ∨ code = "201") ∧ (d = "0" ∨ d = "1") then
      s!"nrf answered={code} declared={d} required={d} probe={if d = "1" then "401" else "open"}"
    else "bad-op"
  | ["end"] => "ok"
  | _ => "bad-op"

end Chf.Driver
