import Driver.DiamIO
import ChfVerif.Model.Charging
import ChfVerif.Spec.ChargingSpec
/- line protocol of the `chf` stream: operations in, canonical observation out -/
namespace Chf.Driver
open Chf Chf.Charging

def pInt : Tok → Option (Int × Tok)
  | [] => none
  | t :: r => match t.toInt? with
    | some n => some (n, r)
    | none => none

def pHexTok : Tok → Option (Bytes × Tok)
  | [] => none
  | t :: r => match bytesOfHex t with
    | some b => some (b, r)
    | none => none

def trigCode (s : String) : Option Nat :=
  if s = "F" then some 0 else if s = "V" then some 1 else if s = "Q" then some 2
  else if s = "M" then some 3 else if s = "I" then some 4 else if s = "X" then some 5 else none

def pTrigs : Nat → Tok → Option (List Nat × Tok)
  | 0, t => some ([], t)
  | n + 1, [] => none
  | n + 1, x :: t => match trigCode x, pTrigs n t with
    | some c, some (cs, t) => some (c :: cs, t)
    | _, _ => none

def pConts : Nat → Tok → Option (List Container × Tok)
  | 0, t => some ([], t)
  | n + 1, t =>
    match t with
    | q :: a :: b :: c :: d :: e :: t =>
      (match q.toNat?, a.toInt?, b.toInt?, c.toInt?, d.toInt?, e.toInt?, pConts n t with
       | some q, some a, some b, some c, some d, some e, some (cs, t) =>
         some ({ qmi := q, total := a, up := b, down := c, ssu := d, lsn := e } :: cs, t)
       | _, _, _, _, _, _, _ => none)
    | _ => none

def pUsages : Nat → Tok → Option (List Usage × Tok)
  | 0, t => some ([], t)
  | n + 1, t =>
    match t with
    | rg :: req :: upf :: nc :: t =>
      let reqv : Option (Option Int) := if req = "~" then some none else (req.toInt?).map some
      (match rg.toInt?, reqv, bytesOfHex upf, nc.toNat? with
       | some rg, some reqv, some upf, some nc =>
         (match pConts nc t with
          | some (cs, t) =>
            (match pUsages n t with
             | some (us, t) => some ({ rg := rg, req := reqv, upf := upf, cs := cs } :: us, t)
             | none => none)
          | none => none)
       | _, _, _, _ => none)
    | _ => none

def pReq (t : Tok) : Option (Req × Tok) :=
  match t with
  | supi :: nf :: cid :: seq :: uri :: one :: nt :: t =>
    let nfv : Option (Option Bytes) := if nf = "~" then some none else (bytesOfHex nf).map some
    (match bytesOfHex supi, nfv, cid.toInt?, seq.toInt?, uri.toNat?, one.toNat?, nt.toNat? with
     | some supi, some nfv, some cid, some seq, some uri, some one, some nt =>
       (match pTrigs nt t with
        | some (trigs, nu :: t) =>
          (match nu.toNat? with
           | some nu =>
             (match pUsages nu t with
              | some (us, t) =>
                some ({ supi := supi, nf := nfv, cid := cid, seq := seq, uri := uri = 1, one := one % 2 = 1,
                        trigs := trigs, usages := us, bad := one / 2 % 4 ≠ 0 }, t)
              | none => none)
           | none => none)
        | _ => none)
     | _, _, _, _, _, _, _ => none)
  | _ => none

/-! printing -/

def insertBy {α} (lt : α → α → Bool) (x : α) : List α → List α
  | [] => [x]
  | y :: r => if lt y x then y :: insertBy lt x r else x :: y :: r
def sortBy {α} (lt : α → α → Bool) (l : List α) : List α := l.foldr (insertBy lt) []

def bytesLt : Bytes → Bytes → Bool
  | [], [] => false
  | [], _ :: _ => true
  | _ :: _, [] => false
  | a :: r, b :: s => if a < b then true else if b < a then false else bytesLt r s

def joinOr (sep : String) (l : List String) : String := if l.isEmpty then "-" else sep.intercalate l

def sCont (c : Container) : String :=
  s!"{c.lsn}/{c.total}/{c.up}/{c.down}/{c.ssu}"

def sRecUsage (u : RecUsage) : String :=
  s!"{u.rg}~{hexOfBytes u.upf}~{"+".intercalate (u.cs.map sCont)}"

def optHex : Option Bytes → String
  | some b => hexOfBytes b
  | none => "-"

def sRecord (r : Record) : String :=
  let rsn : Int := match r.rsn with | some n => n | none => -1
  s!"sid={optHex r.sid},sub=1.{hexOfBytes r.subData},cid={r.cid},nf={optHex r.nf},lsn={r.lsn},rsn={rsn},cause={r.cause},u={joinOr ";" (r.usage.map sRecUsage)}"

def sUe (u : Ue) : String :=
  let money := (sortBy (fun a b => decide (a.1 < b.1)) u.groups).map fun (rg, st) =>
    s!"{rg}={st.reserved}/{st.mode}/{st.cost}/{st.reqNum}"
  let cdr := (sortBy (fun a b => bytesLt a.1 b.1) u.cdr).map fun (sid, i) => s!"{hexOfBytes sid}>{i}"
  s!"{hexOfBytes u.supi} money={joinOr ";" money} cdr={joinOr ";" cdr} rec={joinOr "|" (u.records.map sRecord)}"

def sState (s : State) : String :=
  let ues := sortBy (fun a b => bytesLt a.supi b.supi) s.ues
  s!"bal={dumpStore s.accts} nue={ues.length} {joinOr " " (ues.map sUe)}"

def i32 (n : Nat) : Int := if n ≥ 2147483648 then (n : Int) - 4294967296 else n

def sResp (r : Resp) : String :=
  let loc := match r.loc with | some l => hexOfBytes l | none => "-"
  let seq := match r.seq with | some q => toString q | none => "-"
  let ts := if r.status = 201 ∨ r.status = 200 then 1 else 0
  let body := if r.status = 204 then 0 else 1
  let mui := joinOr ";" (r.muis.map fun m => s!"{m.rg}:{i32 m.granted}:{if m.fui then 1 else 0}")
  let notif := joinOr ";" (r.notif.map fun (supi, rg) =>
    hexOfBytes ([47, 110, 47] ++ supi) ++ ":" ++ toString rg)
  s!"st={r.status} loc={loc} seq={seq} ts={ts} body={body} mui={mui} notif={notif}"

/-- the record-size guard is supplied by the driver (BER model); until it is plugged in: never split -/
def noSplit : SplitGuard := fun _ _ => false

def setAcct (s : State) (ue : Bytes) (rg : Nat) (q c : Bytes) : State :=
  { s with accts := setAccount s.accts ue rg q, tariffs := setTariff s.tariffs ue rg c }

/-- the rating groups an operation may move money for -/
def opPairs : Op → List (Bytes × Int)
  | .update _ r | .release _ r => (r.usages.map fun u => (r.supi, u.rg)).eraseDups
  | .credit supi rg _ => [(supi, (rg : Int))]
  | _ => []

/-- annotations (tokens starting with '#', ignored by the correspondence diff): is the operation inside
    the property's quantifier (`opOKb`), which money movement the theorems prescribe (`creditedOp - ratedOp`),
    is the consumer compliant (`compliantB`) -/
def annot (s : State) (Ls : Ledgers) (op : Op) : String :=
  let net := (opPairs op).map fun (supi, rg) =>
    s!"{hexOfBytes supi}/{rg}:{creditedOp s op supi rg - ratedOp s op supi rg}"
  -- across outages (theorem C01_outage_step): side conditions without "servers reachable", and credited - booked
  let acc := (opPairs op).map fun (supi, rg) =>
    s!"{hexOfBytes supi}/{rg}:{creditedOp s op supi rg - accountedOp s op supi rg}"
  s!"#ok={if opOKb s op then 1 else 0} #comp={if opCompliantB s Ls op then 1 else 0} #net={joinOr ";" net} #okx={if opOKx s op then 1 else 0} #acc={joinOr ";" acc}"

abbrev ChfSt := State × Ledgers

def runOp (guard : SplitGuard) (sl : ChfSt) (op : Op) : ChfSt × String :=
  let (s, Ls) := sl
  let (s', o) := step guard s op
  ((s', ledgersStep s Ls op), sResp o ++ " " ++ sState s' ++ " " ++ annot s Ls op)

def chfOp (guard : SplitGuard) (sl : ChfSt) : Tok → ChfSt × String
  | ["acct", ue, rg, q, c] =>
    (match bytesOfHex ue, rg.toNat?, bytesOfHex q, bytesOfHex c with
     | some ue, some rg, some q, some c => ((setAcct sl.1 ue rg q c, sl.2), "ok")
     | _, _, _, _ => (sl, "bad-op"))
  | ["credit", ue, rg, amt] =>
    (match bytesOfHex ue, rg.toNat?, amt.toInt? with
     | some ue, some rg, some amt =>
       let op := Op.credit ue rg amt
       (((step guard sl.1 op).1, ledgersStep sl.1 sl.2 op), "ok " ++ annot sl.1 sl.2 op)
     | _, _, _ => (sl, "bad-op"))
  | ["end"] => (sl, "ok")
  | ["slowdb", _] => (sl, "ok")      -- the store answers slowly: no effect on the sequential model
  | ["outage", which, mode] =>
    -- reachability of the account-balance / rating server (down: dial error, silent: no answer - alike for the model)
    let up := mode = "up"
    if mode = "up" ∨ mode = "down" ∨ mode = "silent" then
      if which = "abmf" then ((setReach sl.1 up sl.1.rfUp, sl.2), "ok")
      else if which = "rf" then ((setReach sl.1 sl.1.abmfUp up, sl.2), "ok")
      else (sl, "bad-op")
    else (sl, "bad-op")
  | ["reset"] => (({}, []), "ok")
  | "create" :: t =>
    (match pReq t with
     | some (r, []) =>
       -- `Req.nf = none` stands for "no consumer identification the CHF accepts": the member is missing, or - for a
       -- session - the name has a path separator (the reference built from it could not be the last element of a URI)
       -- … or a control character (the Location header could not carry the reference)
       let r := if !r.one && (r.nf.map (fun n => n.contains 47 || n.any Chf.Charging.isControl)).getD false then { r with nf := none } else r
       runOp guard sl (.create r)
     | _ => (sl, "bad-op"))
  | "update" :: sid :: t =>
    (match bytesOfHex sid, pReq t with
     | some sid, some (r, []) => runOp guard sl (.update sid r)
     | _, _ => (sl, "bad-op"))
  | "release" :: sid :: t =>
    (match bytesOfHex sid, pReq t with
     | some sid, some (r, []) => runOp guard sl (.release sid r)
     | _, _ => (sl, "bad-op"))
  | ["recharge", info] =>
    (match bytesOfHex info with
     | some info => runOp guard sl (.recharge info)
     | none => (sl, "bad-op"))
  | _ => (sl, "bad-op")

end Chf.Driver
