import Driver.CdrFileIO
import ChfVerif.Model.Abmf
import ChfVerif.Model.Rating
import ChfVerif.Spec.AbmfSpec
import ChfVerif.Spec.RatingSpec
/- line protocol for the account-balance (`abmf`) and rating (`rf`) server models -/
namespace Chf.Driver
open Chf

def bytesOfString (s : String) : Bytes := s.toUTF8.toList.map (·.toNat)

def quotaText : Abmf.Quota → Bytes
  | .raw t => t
  | .num i => bytesOfString (toString i)

/-- insertion sort of strings (canonical dump order = Go's sort.Strings on ASCII) -/
def insertStr (x : String) : List String → List String
  | [] => [x]
  | y :: r => if x ≤ y then x :: y :: r else y :: insertStr x r
def sortStrs (l : List String) : List String := l.foldr insertStr []

def dumpStore (st : Abmf.Store) : String :=
  match st with
  | [] => "-"
  | _ => ",".intercalate (sortStrs (st.map fun a =>
      hexOfBytes a.ue ++ "/" ++ toString a.rg ++ "=" ++ hexOfBytes (quotaText a.quota)))

/-- `store.set`: replace or add -/
def setAccount (st : Abmf.Store) (ue : Bytes) (rg : Nat) (q : Bytes) : Abmf.Store :=
  match Abmf.find st ue rg with
  | some _ => Abmf.put st ue rg (.raw q)
  | none => st ++ [{ ue := ue, rg := rg, quota := .raw q }]

def abmfOp (st : Abmf.Store) : Tok → Abmf.Store × String
  | ["set", ue, rg, q] =>
    match bytesOfHex ue, rg.toNat?, bytesOfHex q with
    | some ue, some rg, some q => (setAccount st ue rg q, "ok")
    | _, _, _ => (st, "bad-op")
  | ["reset", _] => ([], "ok")
  | ["conc", ue, rg, bal, nconn, nreq, amount] =>
    -- nconn connections x nreq reservations of `amount` for one account, all at once: with the account step atomic
    -- (Props.C07.C07_account_step_atomic) any interleaving is a list of steps (C07_concurrent_reservations)
    (match bytesOfHex ue, rg.toNat?, bal.toNat?, nconn.toNat?, nreq.toNat?, amount.toNat? with
     | some ue, some rg, some bal, some nconn, some nreq, some amount =>
       let st0 := setAccount st ue rg ((toString bal).toUTF8.toList.map (·.toNat))
       let c : Abmf.CCR := { sess := [], reqType := 2, reqNum := 0, action := 0, subType := 1, subData := ue.drop 5, rg := rg,
                             rsu := amount, usu := 0 }
       let n := nconn * nreq
       let rec go : Nat → Abmf.Store → Nat → Nat → Abmf.Store × Nat × Nat
         | 0, s, g, a => (s, g, a)
         | k + 1, s, g, a =>
           match Abmf.handleCCR s c with
           | (s', .answer _ _ _ (some x) _) => go k s' (g + x) (a + 1)
           | (s', _) => go k s' g a
       let (st', granted, answers) := go n st0 0 0
       let spent : Int := (bal : Int) - (match Abmf.find st' ue rg with
         | some q => (match q.parse with | some v => v | none => 0)
         | none => 0)
       (st', s!"conc answers={answers} granted={granted} spent={spent} {dumpStore st'}")
     | _, _, _, _, _, _ => (st, "bad-op"))
  | ["ccr", sess, ty, num, act, subT, sub, rg, rsu, usu, _x] =>
    -- a chosen End-to-End Identifier (`e<id>`) or a Service-Identifier in the MSCC (`v<id>`): the answer and the effect do not
    -- depend on either (the account is named by the Rating-Group)
    abmfOp st ["ccr", sess, ty, num, act, subT, sub, rg, rsu, usu]
  | ["ccr", sess, ty, num, act, subT, sub, rg, rsu, usu, _x, _y] =>
    abmfOp st ["ccr", sess, ty, num, act, subT, sub, rg, rsu, usu]
  | ["ccr", sess, ty, num, act, subT, sub, rg, rsu, usu] =>
    -- `0-`: the Requested-Action AVP is absent; the server decodes the zero value
    match bytesOfHex sess, ty.toNat?, num.toNat?, (if act = "0-" then some 0 else act.toNat?), subT.toNat?, bytesOfHex sub, rg.toNat?,
          rsu.toNat?, usu.toNat? with
    | some sess, some ty, some num, some act, some subT, some sub, some rg, some rsu, some usu =>
      let c : Abmf.CCR := { sess := sess, reqType := ty, reqNum := num, action := act, subType := subT,
                            subData := sub, rg := rg, rsu := rsu, usu := usu }
      match Abmf.handleCCR st c with
      | (st', .noAnswer) => (st', "noanswer " ++ dumpStore st')
      | (st', .answer s t n g f) =>
        (st', "ans " ++ hexOfBytes s ++ " " ++ toString t ++ " " ++ toString n ++ " " ++
          (match g with | some g => toString g | none => "-") ++ " " ++ (if f then "1" else "0") ++ " " ++
          dumpStore st')
    | _, _, _, _, _, _, _, _, _ => (st, "bad-op")
  | _ => (st, "bad-op")

def setTariff (st : List Rating.Tariff) (ue : Bytes) (rg : Nat) (c : Bytes) : List Rating.Tariff :=
  { ue := ue, rg := rg, unitCost := c } :: st.filter (fun a => ¬ (a.ue = ue ∧ a.rg = rg))

/-- an amount of a service-usage request; `~`: the optional AVP is absent, the server decodes the zero value -/
def amountTok (s : String) : Option Nat := if s = "~" then some 0 else s.toNat?

def rfOp (st : List Rating.Tariff) : Tok → List Rating.Tariff × String
  | ["set", ue, rg, c] =>
    match bytesOfHex ue, rg.toNat?, bytesOfHex c with
    | some ue, some rg, some c => (setTariff st ue rg c, "ok")
    | _, _, _ => (st, "bad-op")
  | ["reset", _] => ([], "ok")
  | ["sur", _, _, "-", _, _, _, _] =>
    -- no Subscription-Id AVP: handleSUR dereferences the nil pointer, go-diameter recovers and closes the connection
    (st, "panic")
  | ["sur", sess, subT, sub, rg, rs, cons, quota] =>
    match bytesOfHex sess, subT.toNat?, bytesOfHex sub, rg.toNat?, rs.toNat?, amountTok cons, amountTok quota with
    | some sess, some subT, some sub, some rg, some rs, some cons, some quota =>
      let c : Rating.SUR := { sess := sess, subType := subT, subData := sub, rg := rg, reqSub := rs,
                              consumed := cons, quota := quota }
      match Rating.handleSUR st c with
      | .noAnswer => (st, "noanswer")
      | .answer s d e a p =>
        (st, "ans " ++ hexOfBytes s ++ " " ++ toString d ++ " " ++ toString e ++ " " ++ toString a ++ " " ++
          toString p ++ " " ++ toString (Rating.chfUnitCost d e))
    | _, _, _, _, _, _, _ => (st, "bad-op")
  | _ => (st, "bad-op")

end Chf.Driver

namespace Chf.Driver
open Chf

/-- parse "<ueHex>/<rg>=<quotaHex>,..." (or "-") as written by the harness -/
def parseDump (s : String) : Option Abmf.Store :=
  if s = "-" then some [] else
  (s.splitOn ",").foldr (fun item acc =>
    match acc, item.splitOn "/" with
    | some l, [ue, rest] =>
      (match rest.splitOn "=" with
       | [rg, q] =>
         (match bytesOfHex ue, rg.toNat?, bytesOfHex q with
          | some ue, some rg, some q => some ({ ue := ue, rg := rg, quota := .raw q } :: l)
          | _, _, _ => none)
       | _ => none)
    | _, _ => none) (some [])

def pCCR : Tok → Option Abmf.CCR
  | [sess, ty, num, act, subT, sub, rg, rsu, usu] =>
    -- `0-`: the Requested-Action AVP is absent; the server decodes the zero value
    match bytesOfHex sess, ty.toNat?, num.toNat?, (if act = "0-" then some 0 else act.toNat?), subT.toNat?, bytesOfHex sub, rg.toNat?,
          rsu.toNat?, usu.toNat? with
    | some sess, some ty, some num, some act, some subT, some sub, some rg, some rsu, some usu =>
      some { sess := sess, reqType := ty, reqNum := num, action := act, subType := subT,
             subData := sub, rg := rg, rsu := rsu, usu := usu }
    | _, _, _, _, _, _, _, _, _ => none
  | _ => none

/-- `abmfjudge <before> <9 ccr fields> noanswer <after>` / `… ans <sess> <type> <num> <g|-> <fui> <after>` -/
def abmfJudge : Tok → String
  | before :: sess :: ty :: num :: act :: subT :: sub :: rg :: rsu :: usu :: rest =>
    match parseDump before, pCCR [sess, ty, num, act, subT, sub, rg, rsu, usu] with
    | some b, some c =>
      let rep : Option (Abmf.Reply × String) :=
        match rest with
        | ["noanswer", after] => some (.noAnswer, after)
        | ["ans", s, t, n, g, f, after] =>
          (match bytesOfHex s, t.toNat?, n.toNat? with
           | some s, some t, some n =>
             let g' : Option (Option Nat) := if g = "-" then some none else (g.toNat?).map some
             (match g' with
              | some g' => some (.answer s t n g' (f = "1"), after)
              | none => none)
           | _, _, _ => none)
        | _ => none
      (match rep with
       | some (r, after) =>
         (match parseDump after with
          | some a => if Abmf.holds b c r a then "holds" else "fails"
          | none => "bad-op")
       | none => "bad-op")
    | _, _ => "bad-op"
  | _ => "bad-op"

/-- `rfjudge <storedHex|?> <7 sur fields> noanswer` / `… ans <sess> <digits> <exp> <allowed> <price>` -/
def rfJudge : Tok → String
  | stored :: sess :: subT :: sub :: rg :: rs :: cons :: quota :: rest =>
    match bytesOfHex sess, subT.toNat?, bytesOfHex sub, rg.toNat?, rs.toNat?, amountTok cons, amountTok quota with
    | some sess, some subT, some sub, some rg, some rs, some cons, some quota =>
      let c : Rating.SUR := { sess := sess, subType := subT, subData := sub, rg := rg, reqSub := rs,
                              consumed := cons, quota := quota }
      let st : Option (Option Bytes) := if stored = "?" then some none else (bytesOfHex stored).map some
      let rep : Option Rating.Reply :=
        match rest with
        | ["noanswer"] => some .noAnswer
        | ["ans", s, d, e, a, p] =>
          (match bytesOfHex s, d.toInt?, e.toInt?, a.toNat?, p.toNat? with
           | some s, some d, some e, some a, some p => some (.answer s d e a p)
           | _, _, _, _, _ => none)
        | _ => none
      (match st, rep with
       | some st, some r => if Rating.holds st c r then "holds" else "fails"
       | _, _ => "bad-op")
    | _, _, _, _, _, _, _ => "bad-op"
  | _ => "bad-op"

end Chf.Driver
