import Driver.CdrFileIO
import ChfVerif.Model.Config
namespace Chf.Driver
open Chf.Config

def cfgOfMask (m : Nat) (sc : Scheme) (sv : Services) : Cfg :=
  let has (i : Nat) : Bool := !(m.testBit i)
  ⟨has 0, has 1, has 2, has 3, has 4, has 5, has 6, has 7, has 8, has 9, has 10, has 11, has 12, has 13, has 14,
   has 15, has 16, has 17, has 18, has 19, sc, sv, .tcp, .tcp, false⟩

def protoOf (s : String) : Proto :=
  if s = "tcp" then .tcp else if s = "sctp" then .sctp else if s = "none" then .absent else .other

/-- `rfp=<proto>`, `abp=<proto>`, `cgf=on|off`, `klog=on|off` (started with a TLS key log file: not part of the configuration,
    no outcome depends on it) -/
def applyOpts (c : Cfg) : List String → Option Cfg
  | [] => some c
  | t :: r =>
    match t.splitOn "=" with
    | ["rfp", v] => applyOpts { c with rfProto := protoOf v } r
    | ["abp", v] => applyOpts { c with abmfProto := protoOf v } r
    | ["cgf", v] => if v = "on" then applyOpts { c with cgfEnable := true } r
                    else if v = "off" then applyOpts { c with cgfEnable := false } r else none
    | ["klog", v] => if v = "on" ∨ v = "off" then applyOpts c r else none
    | _ => none

def configOp : Tok → String
  | "run" :: mask :: scheme :: svc :: opts =>
    (match mask.toNat? with
     | some m =>
       let sc : Scheme := if scheme = "http" then .http else if scheme = "https" then .https
                          else if scheme = "none" then .absent else .other
       let sv : Option Services := if (svc.toList.take 2) = "ok".toList then some .ok
                                   else if (svc.toList.take 3) = "dup".toList then some .duplicate
                                   else if (svc.toList.take 7) = "unknown".toList then some .unknown
                                   else if svc = "empty" then some .empty else none
       (match sv with
        | some sv =>
          (match applyOpts (cfgOfMask m sc sv) opts with
           | some c => if validate c then (if startsOK c then "accepted starts" else "accepted CRASHES") else "rejected"
           | none => "bad-op")
        | none => "bad-op")
     | none => "bad-op")
  | _ => "bad-op"

end Chf.Driver
