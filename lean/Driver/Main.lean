import Driver.CdrFileIO
/-
  Line-protocol driver: one operation per input line, one canonical line per operation.
  The first token selects the stream (model).  Imports models and specs only.
-/
open Chf Chf.Driver

def step (line : String) : String :=
  match (line.trimAscii.toString.splitOn " ").filter (· ≠ "") with
  | "cdrfile" :: t => cdrfileOp t
  | _ => "bad-op"

partial def loop (h : IO.FS.Stream) (out : IO.FS.Stream) : IO Unit := do
  let line ← h.getLine
  if line.isEmpty then return ()
  out.putStrLn (step line)
  loop h out

def main : IO Unit := do
  let out ← IO.getStdout
  loop (← IO.getStdin) out
  out.flush
