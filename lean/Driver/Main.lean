import Driver.CdrFileIO
import Driver.DiamIO
import Driver.ChargingIO
import Driver.ConvIO
import Driver.DiamPrimIO
import Driver.ConfigIO
import Driver.BerIO
import Driver.CdrDumpIO
import Driver.PeerIO
import Driver.RecBerIO
import Driver.AuthIO
/-
  Line-protocol driver: one operation per input line, one canonical line per operation.
  The first token selects the stream (model); stateful streams keep their state in `DState`.
  Imports models and specs only.
-/
open Chf Chf.Driver

structure DState where
  abmf : Abmf.Store := []
  rf : List Rating.Tariff := []
  chf : ChfSt := ({}, [])

/-- what OpenCDR takes from outside the charging model, as far as sizes go: a 36-octet NF instance id, a 9-octet
    opening time, consumer functionality SMF.  (The harness reports the real values; the `recber` check compares.) -/
def chfEnv : RecordBer.RecEnv := { nfId := List.replicate 36 48, openTime := List.replicate 9 0, functionality := 1 }

def step (s : DState) (line : String) : DState × String :=
  match (line.trimAscii.toString.splitOn " ").filter (· ≠ "") with
  | "cdrfile" :: t => (s, cdrfileOp t)
  | "abmf" :: t => let (a, o) := abmfOp s.abmf t; ({ s with abmf := a }, o)
  | "rf" :: t => let (a, o) := rfOp s.rf t; ({ s with rf := a }, o)
  | "chf" :: t => let (a, o) := chfOp (RecordBer.berGuard chfEnv) s.chf t; ({ s with chf := a }, o)
  | "conv" :: t => (s, convOp t)
  | "ber" :: t => (s, berOp t)
  | "peer" :: t => (s, peerOp t)
  | "auth" :: t => (s, authOp t)
  | "c03" :: t => (s, c03Op ("c03" :: t))
  | "config" :: t => (s, configOp t)
  | "diam" :: t => (s, diamOp t)
  | "recbytes" :: t => (s, recberOp t)
  | "recguard" :: t => (s, recguardOp t)
  | "recopen" :: t => (s, recopenOp t)
  | "abmfjudge" :: t => (s, abmfJudge t)
  | "rfjudge" :: t => (s, rfJudge t)
  | _ => (s, "bad-op")

partial def loop (h : IO.FS.Stream) (out : IO.FS.Stream) (s : DState) : IO Unit := do
  let line ← h.getLine
  if line.isEmpty then return ()
  let (s', o) := step s line
  out.putStrLn o
  loop h out s'

def main : IO Unit := do
  let out ← IO.getStdout
  loop (← IO.getStdin) out {}
  out.flush
