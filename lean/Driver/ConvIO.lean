import Driver.CdrFileIO
import ChfVerif.Model.Convert
namespace Chf.Driver
open Chf Chf.Convert

def convOp : Tok → String
  | ["ts", y, mo, d, h, mi, s, tz] =>
    (match y.toNat?, mo.toNat?, d.toNat?, h.toNat?, mi.toNat?, s.toNat?, tz.toInt? with
     | some y, some mo, some d, some h, some mi, some s, some tz =>
       "ok " ++ hexOfBytes (timeStampToCdr { year := y, month := mo, day := d, hour := h, minute := mi, second := s, tz := tz })
     | _, _, _, _, _, _, _ => "bad-op")
  | ["read", hx] =>
    (match bytesOfHex hx with
     | some b => (match readTimeStamp b with
       | some st => s!"ok {st.yy} {st.month} {st.day} {st.hour} {st.minute} {st.second} {st.tzMinutes}"
       | none => "none")
     | none => "bad-op")
  | _ => "skip"

end Chf.Driver
