import Driver.CdrFileIO
import ChfVerif.Model.Diameter
namespace Chf.Driver
open Chf Chf.Diameter

def diamOp : Tok → String
  | ["prim", "u32", v] => (match v.toNat? with | some x => s!"ok {hexOfBytes (encU32 x)} pad=0" | none => "bad-op")
  | ["prim", "u64", v] => (match v.toNat? with | some x => s!"ok {hexOfBytes (encU64 x)} pad=0" | none => "bad-op")
  | ["prim", "i32", v] => (match v.toInt? with | some x => s!"ok {hexOfBytes (encI32 x)} pad=0" | none => "bad-op")
  | ["prim", "i64", v] => (match v.toInt? with | some x => s!"ok {hexOfBytes (encI64 x)} pad=0" | none => "bad-op")
  | ["prim", "str", v] => (match bytesOfHex v with | some b => s!"ok {hexOfBytes b} pad={padding b.length}" | none => "bad-op")
  | _ => "skip"

end Chf.Driver
