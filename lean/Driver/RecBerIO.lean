import ChfVerif.Model.RecordBer
import ChfVerif.Spec.X690
import Driver.CdrFileIO
/-
  `recber <nfIdHex> <openTimeHex> <functionality> <record>`
      the record as the `chf` stream dumps it (sid=…,sub=1.…,cid=…,nf=…,lsn=…,rsn=…,cause=…,u=…):
      octets the model writes for it (Ber.marshal on the regenerated schema type CHFRecord), and its size
  `recguard <nfIdHex> <openTimeHex> <functionality> <record> <nusage> <usages…>`
      the size guard of ChargingDataUpdate as the model computes it: `pre=<len> chg=<len> split=<0|1>`
-/
namespace Chf.Driver
open Chf Chf.Charging Chf.Ber Chf.RecordBer

def pContainer (s : String) : Option Container :=
  match s.splitOn "/" with
  | [l, t, u, d, ss] =>
    (match l.toInt?, t.toInt?, u.toInt?, d.toInt?, ss.toInt? with
     | some l, some t, some u, some d, some ss => some { qmi := 0, total := t, up := u, down := d, ssu := ss, lsn := l }
     | _, _, _, _, _ => none)
  | _ => none

def allSomeL {α} : List (Option α) → Option (List α)
  | [] => some []
  | none :: _ => none
  | some a :: r => (allSomeL r).map (a :: ·)

def pRecUsage (s : String) : Option RecUsage :=
  match s.splitOn "~" with
  | [rg, upf, cs] =>
    (match rg.toInt?, bytesOfHex upf, (if cs = "" then some [] else allSomeL ((cs.splitOn "+").map pContainer)) with
     | some rg, some upf, some cs => some { rg := rg, upf := upf, cs := cs }
     | _, _, _ => none)
  | _ => none

def optOfHex (s : String) : Option (Option Bytes) :=
  if s = "-" then some none else (bytesOfHex s).map some

def kvOf (key : String) (s : String) : Option String :=
  if s.startsWith (key ++ "=") then some (s.drop (key.length + 1)).toString else none

def pRecord (s : String) : Option Record :=
  match s.splitOn "," with
  | [sid, sub, cid, nf, lsn, rsn, cause, u] =>
    (match kvOf "sid" sid, kvOf "sub" sub, kvOf "cid" cid, kvOf "nf" nf, kvOf "lsn" lsn, kvOf "rsn" rsn, kvOf "cause" cause, kvOf "u" u with
     | some sid, some sub, some cid, some nf, some lsn, some rsn, some cause, some u =>
       (match optOfHex sid, (if sub.startsWith "1." then bytesOfHex (sub.drop 2).toString else none), cid.toInt?, optOfHex nf,
              lsn.toNat?, rsn.toInt?, cause.toNat?,
              (if u = "-" then some [] else allSomeL ((u.splitOn ";").map pRecUsage)) with
        | some sid, some sub, some cid, some nf, some lsn, some rsn, some cause, some us =>
          some { sid := sid, subData := sub, cid := cid, nf := nf, lsn := lsn,
                 rsn := if rsn < 0 then none else some rsn.toNat, cause := cause, usage := us }
        | _, _, _, _, _, _, _, _ => none)
     | _, _, _, _, _, _, _, _ => none)
  | _ => none

def sRecRes : Res Bytes → String
  | .ok b => s!"ok {b.length} {hexOfBytes b} wf={if X690.wellFormed b then 1 else 0}"
  | .err => "err"
  | .panic => "panic"

/-- `<functionality>` or `<functionality>e` (the usage list is an empty but non-nil slice) -/
def pFn (s : String) : Option (Int × Bool) :=
  if s.endsWith "e" then (s.dropEnd 1).toString.toInt?.map (·, true) else s.toInt?.map (·, false)

def recberOp : Tok → String
  | [nfid, ot, fn, rec] =>
    (match bytesOfHex nfid, bytesOfHex ot, pFn fn, pRecord rec with
     | some nfid, some ot, some (fn, el), some r =>
       sRecRes (recordBytes { nfId := nfid, openTime := ot, functionality := fn, emptyList := el } r)
     | _, _, _, _ => "bad-op")
  | _ => "bad-op"

def pRecUsages (u : String) : Option (List RecUsage) :=
  if u = "-" then some [] else allSomeL ((u.splitOn ";").map pRecUsage)

/-- the guard of ChargingDataUpdate on the record the session writes to and the request's usage -/
def recguardOp : Tok → String
  | [nfid, ot, fn, rec, rq] =>
    (match bytesOfHex nfid, bytesOfHex ot, pFn fn, pRecord rec, pRecUsages rq with
     | some nfid, some ot, some (fn, el), some r, some us =>
       let e : RecEnv := { nfId := nfid, openTime := ot, functionality := fn, emptyList := el }
       s!"pre={lenOf (recordBytes e r)} chg={if us.isEmpty then 0 else lenOf (chgBytesR us)} split={if berGuardR e r us then 1 else 0}"
     | _, _, _, _, _ => "bad-op")
  | _ => "bad-op"

def pPlmn (s : String) : Option (Option (Bytes × Bytes)) :=
  if s = "~" then some none
  else match s.splitOn "/" with
    | [a, b] => (match bytesOfHex a, bytesOfHex b with
      | some a, some b => some (some (a, b))
      | _, _ => none)
    | _ => none

def pPdu (s : String) : Option (Option (Option Pdu)) :=
  if s = "~" then some none
  else if s = "x0" ∨ s = "x1" ∨ s = "x2" then some (some none)
  else match s.splitOn "/" with
    | [a, b, c, d, e] => (match a.toInt?, b.toInt?, c.toInt?, bytesOfHex d, bytesOfHex e with
      | some a, some b, some c, some d, some e => some (some (some ⟨a, b, c, d, e⟩))
      | _, _, _, _, _ => none)
    | _ => none

/-- `recopen <nfId> <openTime> <functionality> <v4> <v6> <fqdn> <mcc/mnc|~> <svcSpec> <reg> <pdu> [<record>]`:
    does OpenCDR accept the request, and the octets of the record it opens (identity fields as observed) -/
def recopenOp : Tok → String
  | nfid :: ot :: fn :: v4 :: v6 :: fq :: pl :: sv :: rg :: pd :: rest =>
    (match bytesOfHex nfid, bytesOfHex ot, bytesOfHex fn, bytesOfHex v4, bytesOfHex v6, bytesOfHex fq, pPlmn pl, bytesOfHex sv, pPdu pd with
     | some nfid, some ot, some fn, some v4, some v6, some fq, some pl, some sv, some pd =>
       let c : Consumer := { functionality := fn, v4 := v4, v6 := v6, fqdn := fq, plmn := pl, svcSpec := sv,
                             registration := rg = "1", pdu := pd }
       if ¬ openAccepts c then "st=400"
       else match rest with
         | [rec] => (match pRecord rec with
           | some r => "st=201 " ++ sRecRes (recordBytes (openEnv nfid ot c) r)
           | none => "bad-op")
         | _ => "st=201"
     | _, _, _, _, _, _, _, _, _ => "bad-op")
  | _ => "bad-op"

end Chf.Driver
