import ChfVerif.Gen.Schema
import Driver.CdrFileIO
import ChfVerif.Model.Ber
import ChfVerif.Spec.X690
import ChfVerif.Spec.C05Domain
/-
  line protocol of the `ber` stream.  Notation (shared with harness/cmd/ber.go):
    types:  b | i64 | i32 | e | o | B | n | O | s12 s22 s25 | P<t> | L<t> | W<t> | C[f;f] | S[f;f] | U
            field f = {optional,tag|-,explicit,set,open,stringType}type
    values: b0 b1 | i<n> | x<hex> | t<hex>:<bits> | s<hex> | n0 n1 | N | l[v;v] | c<present>[v;v] | S[v;v]
-/
namespace Chf.Driver
open Chf Chf.Ber

abbrev Cs := List Char

def takeWhileC (f : Char → Bool) : Cs → Cs × Cs
  | [] => ([], [])
  | c :: r => if f c then let (a, b) := takeWhileC f r; (c :: a, b) else ([], c :: r)

def natOf (cs : Cs) : Option Nat := (String.ofList cs).toNat?
def intOf (cs : Cs) : Option Int := (String.ofList cs).toInt?

def pParams (cs : Cs) : Option (Params × Cs) :=
  match cs with
  | '{' :: r =>
    let (body, rest) := takeWhileC (· ≠ '}') r
    (match rest with
     | '}' :: rest' =>
       (match (String.ofList body).splitOn "," with
        | [o, t, e, s, op, st] =>
          let tn : Option (Option Nat) := if t = "-" then some none else (t.toNat?).map some
          (match tn, st.toNat? with
           | some tn, some st =>
             some ({ optional := o = "1", tagNumber := tn, explicit := e = "1" || e = "2", set := s = "1", openType := op = "1",
                     stringType := st }, rest')
           | _, _ => none)
        | _ => none)
     | _ => none)
  | _ => none

mutual
def pTy : Nat → Cs → Option (Ty × Cs)
  | 0, _ => none
  | fuel + 1, cs =>
    match cs with
    | 'b' :: r => some (.bool, r)
    | 'i' :: '6' :: '4' :: r => some (.int 64, r)
    | 'i' :: '3' :: '2' :: r => some (.int 32, r)
    | 'e' :: r => some (.enum, r)
    | 'o' :: r => some (.octets, r)
    | 'B' :: r => some (.bits, r)
    | 'n' :: r => some (.null, r)
    | 'O' :: r => some (.oid, r)
    | 's' :: '1' :: '2' :: r => some (.str 12, r)
    | 's' :: '2' :: '2' :: r => some (.str 22, r)
    | 's' :: '2' :: '5' :: r => some (.str 25, r)
    | 'U' :: r => some (.unsupported, r)
    | 'P' :: r => (match pTy fuel r with | some (t, r) => some (.ptr t, r) | none => none)
    | 'L' :: r => (match pTy fuel r with | some (t, r) => some (.slice t, r) | none => none)
    | 'W' :: r => (match pTy fuel r with | some (t, r) => some (.wrap t, r) | none => none)
    | 'C' :: '[' :: r => (match pFields fuel r with | some (fs, r) => some (.choice fs, r) | none => none)
    | 'S' :: '[' :: r => (match pFields fuel r with | some (fs, r) => some (.struct fs, r) | none => none)
    | _ => none
def pFields : Nat → Cs → Option (Fields × Cs)
  | 0, _ => none
  | fuel + 1, cs =>
    match cs with
    | ']' :: r => some (.nil, r)
    | ';' :: r => pFields fuel r
    | _ =>
      (match pParams cs with
       | some (p, r) =>
         (match pTy fuel r with
          | some (t, r) =>
            (match pFields fuel r with
             | some (fs, r) => some (.cons p t fs, r)
             | none => none)
          | none => none)
       | none => none)
end

def hexCs (cs : Cs) : Option Bytes := bytesOfHexAux cs

def isHex (c : Char) : Bool := (hexVal c).isSome
def isNum (c : Char) : Bool := c.isDigit || c = '-'

mutual
def pVal : Nat → Cs → Option (Val × Cs)
  | 0, _ => none
  | fuel + 1, cs =>
    match cs with
    | 'N' :: r => some (.nil, r)
    | 'b' :: '0' :: r => some (.bool false, r)
    | 'b' :: '1' :: r => some (.bool true, r)
    | 'n' :: '0' :: r => some (.null false, r)
    | 'n' :: '1' :: r => some (.null true, r)
    | 'i' :: r =>
      let (d, rest) := takeWhileC isNum r
      (match intOf d with | some i => some (.int i, rest) | none => none)
    | 'x' :: r =>
      let (d, rest) := takeWhileC isHex r
      (match hexCs d with | some b => some (.bytes b, rest) | none => none)
    | 's' :: r =>
      let (d, rest) := takeWhileC isHex r
      (match hexCs d with | some b => some (.str b, rest) | none => none)
    | 't' :: r =>
      let (d, rest) := takeWhileC isHex r
      (match rest with
       | ':' :: rest' =>
         let (n, rest'') := takeWhileC Char.isDigit rest'
         (match hexCs d, natOf n with
          | some b, some n => some (.bits b n, rest'')
          | _, _ => none)
       | _ => none)
    | 'l' :: '[' :: r => (match pVals fuel r with | some (vs, r) => some (.list vs, r) | none => none)
    | 'S' :: '[' :: r => (match pVals fuel r with | some (vs, r) => some (.struct vs, r) | none => none)
    | 'c' :: r =>
      let (d, rest) := takeWhileC isNum r
      (match intOf d, rest with
       | some i, '[' :: rest' => (match pVals fuel rest' with | some (vs, r) => some (.choice i vs, r) | none => none)
       | _, _ => none)
    | _ => none
def pVals : Nat → Cs → Option (Vals × Cs)
  | 0, _ => none
  | fuel + 1, cs =>
    match cs with
    | ']' :: r => some (.nil, r)
    | ';' :: r => pVals fuel r
    | _ =>
      (match pVal fuel cs with
       | some (v, r) =>
         (match pVals fuel r with
          | some (vs, r) => some (.cons v vs, r)
          | none => none)
       | none => none)
end

def hexRaw (b : Bytes) : String :=
  String.ofList (b.foldr (fun x acc => hexDigit (x / 16 % 16) :: hexDigit (x % 16) :: acc) [])

mutual
def sVal : Val → String
  | .bool b => if b then "b1" else "b0"
  | .int i => "i" ++ toString i
  | .bytes b => "x" ++ hexRaw b
  | .bits b n => "t" ++ hexRaw b ++ ":" ++ toString n
  | .str b => "s" ++ hexRaw b
  | .null b => if b then "n1" else "n0"
  | .nil => "N"
  | .list vs => "l[" ++ sVals vs ++ "]"
  | .choice p vs => "c" ++ toString p ++ "[" ++ sVals vs ++ "]"
  | .struct vs => "S[" ++ sVals vs ++ "]"
def sVals : Vals → String
  | .nil => ""
  | .cons v .nil => sVal v
  | .cons v r => sVal v ++ ";" ++ sVals r
end

def sRes (r : Res String) : String :=
  match r with
  | .ok s => "ok " ++ s
  | .err => "err"
  | .panic => "panic"

/-- a type in the notation, or `T:<name>`: the regenerated description of the schema type cdrType.<name> -/
def pTyOrName (ty : String) : Option (Ty × Cs) :=
  if ty.startsWith "T:" then
    (Chf.Gen.schema.find? (fun e => e.1 == (ty.drop 2).toString)).map (fun e => (e.2, []))
  else pTy (ty.length + 1) ty.toList

/-- one `M` / `R` / `U` operation -/
def berOne (kind ty params arg : String) : String :=
  match pTyOrName ty, pParams params.toList with
  | some (t, []), some (p, []) =>
    if kind = "M" ∨ kind = "R" then
      (match pVal (arg.length + 1) arg.toList with
       | some (v, []) =>
         (match marshal t p v with
          | .ok b =>
            if kind = "M" then "ok " ++ hexRaw b
            else
              (match unmarshal t p b with
               | .ok w => "ok " ++ hexRaw b ++ " ok " ++ sVal w
               | .err => "ok " ++ hexRaw b ++ " err"
               | .panic => "ok " ++ hexRaw b ++ " panic")
          | .err => "err"
          | .panic => "panic")
       | _ => "bad-val")
    else if kind = "U" then
      (match hexCs (if arg = "-" then [] else arg.toList) with
       | some b =>
         (match unmarshal t p b with
          | .ok w => "ok " ++ sVal w
          | .err => "err"
          | .panic => "panic")
       | none => "bad-hex")
    else "bad-op"
  | _, _ => "bad-type"

/-- the items `<ty> <params> <arg>` of a history (`H`) or of a concurrent decoding (`V`) -/
def berItems : List String → Option (List (String × String × String))
  | [] => some []
  | a :: b :: c :: r => (berItems r).map ((a, b, c) :: ·)
  | _ => none

/-- The codec model is a function of (type, parameters, argument): it has no state.  A history of marshal calls
    and a set of concurrent unmarshal calls therefore answer item by item what the single operations answer —
    whatever the order, the repetition or the interleaving (Props.C05.C05_history, Props.C16.C16_schedule). -/
def berEach (kind : String) (items : List String) : String :=
  match berItems items with
  | some its => " | ".intercalate (its.map (fun (ty, ps, a) => berOne kind ty ps a))
  | none => "bad-op"

def berOp : Tok → String
  | ["wf", hx] =>
    (match hexCs hx.toList with
     | some b => if X690.wellFormed b then "ok" else "bad"
     | none => "bad-hex")
  | "spec" :: ty :: params :: rest =>
    let arg := match rest with | a :: _ => a | [] => ""
    (match pTyOrName ty, pParams params.toList, pVal (arg.length + 1) arg.toList with
     | some (t, []), some (p, []), some (v, []) =>
       (match X690.encode t p v with
        | some b => "ok " ++ hexRaw b
        | none => "none")
     | _, _, _ => "bad-op")
  | ["dom", ty, params] =>
    -- is (type, top-level parameters) in the domain of the round-trip law (Props.C05.C05_domain)?
    (match pTyOrName ty, pParams params.toList with
     | some (t, []), some (p, []) => if inDomain t p then "in" else "out"
     | _, _ => "bad-type")
  | ["z0", ty, params, arg] =>
    (match pTyOrName ty, pParams params.toList, hexCs (if arg = "-" then [] else arg.toList) with
     | some (t, []), some (p, []), some b => if zeroLenPrim t p b then "1" else "0"
     | _, _, _ => "bad-type")
  | "H" :: _mode :: items => berEach "R" items
  | "V" :: _goroutines :: _stride :: items => berEach "U" items
  | kind :: ty :: params :: rest =>
    let arg := match rest with | a :: _ => a | [] => ""
    berOne kind ty params arg
  | _ => "bad-op"

end Chf.Driver
