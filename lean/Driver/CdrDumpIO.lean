import ChfVerif.Model.CdrDump
import ChfVerif.Spec.TS32297
import ChfVerif.Spec.X690
import Driver.CdrFileIO
/- `c03 <fileHex> <rec;rec;…|->` : judge one written CDR file against the records of the subscriber context -/
namespace Chf.Driver
open Chf Chf.CdrFile Chf.CdrDump

def parseRecs (s : String) : Option (List Bytes) :=
  if s = "-" then some []
  else (s.splitOn ";").foldr (fun h acc =>
    match acc with
    | none => none
    | some l => if h = "err" then some l else match bytesOfHex h with
      | some b => some (b :: l)
      | none => none) (some [])

def firstBad (ps : List Bytes) (f : Bytes → Bool) : String :=
  match (ps.zipIdx.find? (fun x => !f x.1)) with
  | some (_, i) => "bad:" ++ toString i
  | none => "ok"

def c03Op : Tok → String
  | ["c03", fh, rs] =>
    match bytesOfHex fh, parseRecs rs with
    | some file, some recs =>
      let lens := if TS32297.lengthsConsistent file then "ok" else "bad"
      let cands : List (List Bytes) := recs :: recs.map (fun r => [r])
      let model := if cands.any (fun c => dumpBytes c == file) then "ok" else "diff"
      let over := (recs.filter (fun r => r.length > 65535)).length
      match TS32297.read file with
      | some f =>
        let ps := f.cdrs.map (·.bytes)
        let hdrs := if f.cdrs.all (fun c => c.hdr.cdrLength == c.bytes.length) then "ok" else "bad"
        s!"read=ok n={f.hdr.numCdrs} lens={lens} reclen={hdrs} wf={firstBad ps X690.wellFormed} member={firstBad ps (fun p => recs.contains p)} over={over} model={model}"
      | none => s!"read=fail n=- lens={lens} reclen=- wf=- member=- over={over} model={model}"
    | _, _ => "bad-op"
  | _ => "bad-op"

end Chf.Driver
