-- root of the library: importing every property module builds everything (`lake build ChfVerif`)
import ChfVerif.Props.C01
import ChfVerif.Props.C02
import ChfVerif.Props.C03
import ChfVerif.Props.C04
import ChfVerif.Props.C05
import ChfVerif.Props.C06
import ChfVerif.Props.C07
import ChfVerif.Props.C08
import ChfVerif.Props.C10
import ChfVerif.Props.C12
import ChfVerif.Props.C13
import ChfVerif.Props.C14
import ChfVerif.Props.C15
import ChfVerif.Props.C16
import ChfVerif.Props.C17
import ChfVerif.Props.C20
