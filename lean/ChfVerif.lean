import ChfVerif.Model.Basic
import ChfVerif.Model.CdrFile
import ChfVerif.Spec.TS32297
